#!/usr/bin/env python3
"""Regenerates /verif/MANIFEST.json from the per-property claim table below."""
import json
from pathlib import Path

V = Path(__file__).resolve().parent.parent
props = [json.loads(l)["id"] for l in open(V / "properties.jsonl")]

KANI = "Kani 0.68/CBMC 6.11 bounded model checking of the real Rust functions (SAT-decided over symbolic data, shapes enumerated), native replay of counterexamples"
CLAIMS = {
    "C08": dict(
        text="Bounded model checking of the real normalisation, shift and digit kernels (per-coefficient kernels for every radix with symbolic intra-limb shift; vector-level vec_znx_normalize / lsh / rsh / in-place and fused add/sub forms against an exact 256-bit torus-value oracle with frame assertions). For each enumerated shape the solver decides all data values; counterexamples are replayed natively (dev+release) before being reported.",
        note="Shape grid (radices, limb counts 1..3, offsets/shift amounts, column pair) enumerated; data symbolic within |x|<2^61; n=1 coefficient (coefficient-wise code). Trusted: Kani's MIR semantics, CBMC/CaDiCaL, the oracle in harness/hk_hal/src/spec.rs (validated natively on an exhaustive tiny scope by bin/specval). Encoding (encode/decode_*) part: see evidence.",
        technique=KANI,
        ref="DESIGN.md §5 C08",
    ),
    "C09": dict(
        text="Bounded model checking of the real coefficient-domain ring operations (add/sub/negate/copy/zero/scalar forms, X^k and (X^k-1) products for every k in [-4N,4N], automorphisms for all odd Galois elements, ring switching/splitting/merging, composition laws) against an index-level model of Z[X]/(X^N+1), with frame assertions on three-column outputs.",
        note="N in {1,2,4,8,16}, limb counts 1..3; coefficients symbolic (|x|<2^62 where the reference uses checked +/-). Trusted: Kani/CBMC, the index model in harness/hk_hal/src/vz.rs. Known finding: vec_znx_merge_rings (known_findings.json).",
        technique=KANI,
        ref="DESIGN.md §5 C09",
    ),
    "C13": dict(
        text="Every one of the 290 compiled bit-circuits (11 u32 circuits) is decided for all 2^64 inputs by z3 (cvc5 cross-check in the thorough tier) on node tables dumped from the compiled crate of the current tree; structural clauses (index ranges, no read of an undefined slot, declared width) are checked on the same dump.",
        note="Evaluator semantics (two-buffer level evaluation, Cmux/Copy/None, initial state [0,1,0..]) is transcribed from eval.rs::eval_level in smt/bdd_check.py; the homomorphic Cmux itself is outside (C04). Trusted: z3 4.8.12 / cvc5 1.0, the hook accessor verif_hooks::u32_circuits.",
        technique="SMT (QF_BV) decision over tables dumped from the compiled code: z3, cvc5 cross-check; exhaustive over 2^64 inputs per bit-circuit",
        ref="DESIGN.md §5 C13",
        engine="z3",
    ),
}
CLAIMS["C11"] = dict(
    text="Every harness is in frame style: all writable buffers (selected column, other columns, spare capacity limb, scratch) are fully symbolic before the call; the solver decides that afterwards the selected column equals a function of the inputs only, that each of its limbs was written (zero where the size rule says so), and that no other word changed. Decided for the DFT-domain shape functions of reference/fft64/vec_znx_dft.rs (with substituted exact integer kernels, including (step, offset) selections past the input) for svp / vmp (incl. a non-zero limb offset, two independent output fills), for the coefficient-domain families shared with C08/C09, and for the key-switch / external product / automorphism operations of poulpy-core (two runs with independent prior output contents, shared with C12).",
    note="n=2 and 3 columns for DFT-domain functions; floating-point leaf kernels are replaced by exact integer kernels on the bit patterns (harness type Probe), so only the repository's shape/selection/zero-fill logic is decided there. Convolution shape functions, the NTT120 family and the remaining poulpy-core operations are outside this revision's claim.",
    technique=KANI + "; frame (two-state) assertions over fully symbolic prior output contents",
    ref="DESIGN.md §5 C11",
)
CLAIMS["C18"] = dict(
    text="read_from of VecZnx / ScalarZnx / MatZnx on streams whose every byte is symbolic (all header words incl. products overflowing usize), at every enumerated truncation point: no panic/overflow/out-of-bounds, Err leaves the metadata unchanged, Ok leaves dimensions consistent with the buffer (size <= max_size, n*cols*max_size*8 within the buffer) and accessors in bounds; write->read round trips into equal, larger and re-used receivers reproduce content and dimensions. The poulpy-core wrappers GLWE, LWE and GLWECompressed are decided on fully symbolic streams too: Err leaves every metadata field (base2k, rank, seed, dimensions) unchanged, Ok leaves dimensions consistent with the buffer; GGSWCompressed and GGLWECompressed at every header truncation point (0..19 bytes): Err leaves base2k, dsize, rank, the number of seeds and the size unchanged; LWECompressed at header/seed truncation points (0..48 bytes): Err leaves base2k unchanged. poulpy-bin-fhe BlindRotationKey and BlindRotationKeyCompressed (1-2 GGSW / seed-compressed GGSW elements): never a panic, Err leaves the recorded distribution unchanged, Ok only when the stream announces exactly the receiver's number of elements.",
    note="Small concrete receivers; stream length enumerated (field boundaries +-1). std::fmt::format stubbed (error messages), io::Result forgotten. Streams reaching the seed vector of GGSWCompressed/GGLWECompressed (allocation sized by an untrusted 32-bit count) and their Ok path, the other poulpy-core wrappers (GGLWE/GGSW/keys) and the other poulpy-bin-fhe key readers (composites without scalar fields of their own) are not encoded.",
    technique=KANI + "; stream bytes fully symbolic",
    ref="DESIGN.md §5 C18",
)
CLAIMS["C10"] = dict(
    text="Differential bounded model checking of the real AVX2 kernel sources (poulpy-cpu-avx/src/znx_avx/*.rs and the integer kernels of fft64/convolution.rs, compiled into the harness crate by #[path]) against their reference twins: bit-identical outputs for slice lengths 1..9 (SIMD blocks x tails), every radix of the grid with symbolic intra-limb shift, the full i64 range at the carry boundary, all odd Galois elements, ring-switch ratios, convolution-by-constant limb/size grids.",
    note="Unsupported / mis-modelled intrinsics are replaced by scalar lane models (stubs.rs), each validated against the hardware instruction by a unit test; counterexamples are replayed natively on the real AVX2 instructions. Floating-point AVX kernels, NTT120 AVX primitives and assembly are outside; operation-level identity follows from the shared generic shape code (by reading).",
    technique=KANI + "; differential harness AVX kernel vs reference kernel",
    ref="DESIGN.md §5 C10",
)
CLAIMS["C12"] = dict(
    text="Scratch arena arithmetic decided for symbolic take lengths at enumerated window alignments (aligned, in-window, disjoint, exact remaining capacity; oversize requests are refused by a panic, never served outside the window; split_mut under its own precondition), and HAL (operation, *_tmp_bytes) pairs on FFT64Ref/NTT120Ref marker modules run with a scratch of EXACTLY the declared size and fully symbolic contents: no panic, no access outside the window (Kani's checks), result equal to the reference-level function (hence independent of the scratch contents). poulpy-core pairs on Module<Probe> at N=8: key-switch, external product, automorphism and their in-place / fused forms (same and mismatched key radix, dsize 1..3, ranks 1..2) run twice with independent symbolic scratch fills of exactly the declared size and independent prior outputs give identical results; GLWE encrypt/decrypt with exactly the declared sizes at N=8.",
    note="HAL coefficient-domain pairs only (normalize, lsh/rsh and their in-place/fused forms, rotate/automorphism/mul_xp_minus_one in place), n in {1,2,4}. The other poulpy-core / ckks / bin-fhe pairs, DFT-domain HAL pairs, multi-thread variants and monotonicity are outside this revision's claim. Known findings: split_mut with a per-part length that is not a multiple of 64; poulpy-core size queries omit the 64-byte re-alignment of nested takes (refused at N<8).",
    technique=KANI + "; exact-size scratch window with symbolic contents, reference-level function as oracle",
    ref="DESIGN.md §5 C12",
)
CLAIMS["C17"] = dict(
    text="Kani checks every dereference, slice construction, pointer offset and alignment it executes, so every harness of every claimed property is also a memory-safety obligation inside its bounds. Dedicated obligations decided here: resize/re-allocate/set_size histories of VecZnx followed by the unchecked raw-pointer accessors (with the metadata invariant asserted explicitly so that a violation reproduces natively), accessors of every layout for symbolic in-range indices, views carved out of scratch windows at several alignments (and refusal of oversize requests), and the AVX2 integer kernels on slices that are exactly their allocation at lengths 1..9.",
    note="Language-level UB that no native run can confirm (an out-of-bounds pointer that is formed but never dereferenced) is listed separately as UB-OBSERVATION (known_findings.json: ub_observations), triaged by reading, never as a violation. Uninitialised reads, assembly kernels and the documented alloc_aligned/dealloc layout mismatch are outside (tool limits).",
    technique=KANI + "; CBMC pointer/bounds checks over histories with explicit metadata-invariant assertions",
    ref="DESIGN.md §5 C17",
)
CLAIMS["C01"] = dict(
    text="(0) GLWE secret-key encryption followed by decryption through the real poulpy-core code, the real HAL defaults and the real fft64 shape functions on Module<Probe> (the repository's own hal_impl_*! macros instantiated over ten substituted leaf kernels: identity transform + exact integer arithmetic on the f64 bit patterns): at N=2, where the size-1 FFT IS the identity and the substituted backend is the exact model of FFT64 up to IEEE rounding, and at N=8 (ring Z[i]^4; the statement is ring-generic), for concrete ternary secrets, symbolic message digits, mask words and error: decrypt(encrypt(m)), read in the output plaintext's own radix/precision (equal, narrower, other radix), is m + e*2^-k within one unit of that plaintext's last limb, e exactly the sampled error; and glwe_decrypt alone, on fully symbolic ciphertexts of ranks 1..3, equals an independent exact negacyclic phase oracle (stub-free, every counterexample replays natively). (i) LWE secret-key encryption followed by decryption, through the real poulpy-core code on a marker module (no DFT involved): for concrete ternary secrets and symbolic message digits, mask words and error (within the configured bound), with a scratch of exactly the declared size and symbolic contents, decrypt(encrypt(m)) - m is e*2^-k with |e| <= bound, and e is exactly the sampled error (injected once, at 2^-k). (ii) the error sampler kernels enforce the bound for every bound in [1,2^62) and every draw (incl. NaN/inf), fill overwrites / add adds; (iii) the error lands on limb ceil(k/b)-1 of the selected column with scale exactly 2^((limb+1)b-k).",
    note="Public-key encryption, IEEE rounding / the FFT for N>=4 (C07) and ring degrees above 8 are outside; compressed encryption is decided under C19. The private take_slice_aligned is replaced in whole-operation harnesses by a copy that derives the padding from the window offset inside the aligned harness arena (same function there; keeps scratch offsets constant for CBMC: 30x faster); the real one is decided under C12. Randomness is stubbed at Source::next_u64n and at the Gaussian limb kernel; f64::exp2/log2 replaced by exact/constant models; LWE dimension 2, limb counts <= 3.",
    technique=KANI + "; randomness replaced by symbolic stubs, exact-size symbolic scratch",
    ref="DESIGN.md §5 C01",
)
CLAIMS["C06"] = dict(
    text="Deterministic core of fresh randomness: the uniform digit kernel maps the masked random word bijectively onto [-2^(b-1),2^(b-1)) for every radix 1..63 and consumes exactly one word per coefficient (its rejection loop is dead for the arguments the call site passes); vector-level uniform fill writes every limb of the selected column only; the Gaussian kernels respect the bound and the error is placed on the limb and with the scale that put it at 2^-k (shared with C01); through the LWE and the GLWE (Module<Probe>, N=2) round trips the decryption error equals the sampled error exactly, so 'no error', 'error at a lower position' or 'error added twice' are violations; compressed GGLWE encryption stores pairwise distinct per-cell mask seeds under a stream model in which a re-created generator repeats its branch seeds.",
    note="Statistical clauses (empirical sigma, uniformity as a frequency), ChaCha8/ziggurat themselves, the other key-material encryptors and two-run non-interference statements (mask independent of plaintext/secret) are outside this revision.",
    technique=KANI + "; random stream replaced by symbolic words at Source::next_u64n",
    ref="DESIGN.md §5 C06",
)
CLAIMS["C02"] = dict(
    text="The real poulpy-core GLWE operations (add/sub/negate/copy and their in-place forms incl. mixed plaintext/ciphertext ranks, rotation by X^k, (X^k-1), left/right shifts and their fused add/sub forms, same- and cross-radix normalisation) are run on a marker module with symbolic ciphertext limbs, symbolic prior result content and an exact-size symbolic scratch; the solver decides the column-wise statement that is equivalent, by linearity of the phase map in the columns, to 'phase(res) = OP(phase operands) for every secret': exact equality for the linear family, the one-unit torus relation per column for the shift/normalise family.",
    note="Ring degree 2, ranks 0..2, limb counts 1..3 (calibrated: two-column 3-limb shift shapes exceed the memory cap), base2k 17 (12 as cross-radix target). The reduction phase-level <=> column-level is on paper (DESIGN C02-A2). GGSW forms and N>2 are outside.",
    technique=KANI + "; real poulpy-core operations on a marker module, column-wise specification equivalent to the phase statement by linearity",
    ref="DESIGN.md §5 C02",
)
CLAIMS["C16"] = dict(
    text="CKKS metadata algebra and error paths: the crate's budget/alignment helpers are decided on arbitrary metadata (Ok exactly under the documented condition with the documented value, Err otherwise, no overflow); the product-free operations (add/sub ct-ct, negate, multiply/divide by 2^bits in both forms) run through the public traits on a marker module with symbolic normalised limbs, exact-size symbolic scratch, concrete operand metadata grids (aligned, unequal budgets, destinations of fewer limbs) and bits from {small values, 2^64-2, 2^64-1}: never panic, Err exactly when the remaining budget cannot absorb the request, on Ok the result metadata follows the documented algebra with log_delta+log_budget within the stored precision, and for add/sub the result value equals a +- b at the result's precision.",
    note="All add/sub shapes of the grid (unequal budgets, narrower destinations) are claimed; the unary family keeps a calibrated allow-list. Slot encoding/decoding, the multiplication family, rotate/conjugate (key-switching through the DFT) and random programs are outside. anyhow's fmt/backtrace construction is stubbed.",
    technique=KANI + "; public CKKS traits on a marker module, metadata helpers on symbolic metadata",
    ref="DESIGN.md §5 C16",
)
CLAIMS["C03"] = dict(
    text="(a) GLWE key-switch, out of place and in place, through the real poulpy-core code on Module<Probe> at N=8 (vector-matrix products need N>=8; the substituted backend multiplies in Z[i]^4, the statement is ring-generic and oracle-free): glwe_decrypt(glwe_keyswitch(ct, KSK(s_in->s_out)), s_out) == glwe_decrypt(ct, s_in) exactly on the torus, the switching key produced by the real glwe_switching_key_encrypt_sk + prepare from concrete ternary secrets with zero noise, exact-size symbolic key-switch scratch, symbolic prior output; input ciphertext = fixed digit pattern with 2 symbolic words (quick) / all words symbolic (thorough). (b) the fused automorphism forms equal autom(a)+a, autom(a)-a, a-autom(a) against the plain automorphism with the same key (Galois elements -1,3,5). (c) Galois-element arithmetic: galois_element is decided to be the signed multiplicative map g -> sign(g)*5^|g| mod 2N (ge(0)=1, ge(1)=5, ge(g1)ge(g2)=ge(g1+g2) for all exponents below 2^12, ge(-g)=-ge(g), odd residues in range) for log N <= 12, and galois_element_inv to be the inverse in (Z/2N)* with the same sign convention for every odd element, log N <= 16.",
    note="The VALUE of automorphism / trace / packing / sample extraction needs the negacyclic ring at N>=8 (X->X^g is not a ring map of the substituted ring) and is outside, as are GGLWE/GGSW/LWE key-switch, noise variance bounds and radix-mismatched phase statements; radix mismatch is exercised by the frame harnesses of C12.",
    technique=KANI + "; real poulpy-core code on a substituted-kernel backend, metamorphic (oracle-free) phase statement",
    ref="DESIGN.md §5 C03",
)
CLAIMS["C14"] = dict(
    text="Clear path of the lookup table at extension factor 1: lookup_table_rotate(k) is decided to be multiplication by X^k in Z[X]/(X^N+1) on fully symbolic table contents for every k in [-2N,2N] at N in {2,4} on every run (complete, quick tier included) and for a per-seed sample of k at N=8 (every k in the thorough tier); lookup_table_set is decided to produce X^(-drift)*L with L holding f_i*2^-k on the i-th block of step coefficients (sign flip on wrap, drift = step/2) for symbolic function values and several (N, table length, radix, precision) shapes.",
    note="NARROW: extension factor > 1 (set and rotate) does not finish under Kani and is covered only by a native validation of the interleaving oracle; mod_switch_2n, set_xai_plus_y and the whole blind path (external products through the DFT) are outside. Table fields are read through the verif-hooks accessors.",
    technique=KANI + "; ring-level oracle validated natively against the code",
    ref="DESIGN.md §5 C14",
)
CLAIMS["C19"] = dict(
    text="Encryption side (Module<Probe>, N=2): decompress_glwe(glwe_compressed_encrypt_sk(pt, seed)) is limb for limb glwe_encrypt_sk(pt) run with the mask generator Source::new(seed) and the same error stream; every cell of decompress_gglwe(gglwe_compressed_encrypt_sk(pt, seed)) decrypts (noise-free) to exactly the plaintext of the same cell of gglwe_encrypt_sk(pt) for dsize 1..3, dnum 1..4, ranks 1..2. Decompression side of seed-compressed GLWE: decompress_glwe is decided to copy the body unchanged, to create the mask generator exactly once from the object's stored seed, to draw exactly n*size words per mask column in column order (so the stream lines up with what compressed encryption drew) and to write digits of the object's radix, for symbolic body, seed, mask words and prior receiver contents; a receiver of a different layout is refused (panic) rather than filled from a mis-aligned stream.",
    note="The generator is a stream model (same seed -> same words, different seed -> different words, a re-created parent repeats its branch seeds); natively the real ChaCha8 runs. GGSW/switching/automorphism/tensor/LWE/blind-rotation key compressors, serialisation of compressed matrices and N>2 are outside.",
    technique=KANI + "; random source replaced by recording/counting stubs",
    ref="DESIGN.md §5 C19",
)
CLAIMS["C07"] = dict(
    text="Structural layer only: the generic DFT-domain functions of reference/fft64/vec_znx_dft.rs (add/sub/copy with (step, offset) selection/add_scaled/zero, forward and inverse transforms with their size rules) reference/fft64/svp.rs (prepare, scalar-vector products in all three forms) and reference/fft64/vmp.rs (vmp_prepare into the block-interleaved layout followed by vmp_apply_dft_to_dft = sum over rows of row products, odd/even column tails, truncated outputs; n=8, concrete matrix, symbolic vector) are instantiated with exact integer kernels on the f64 bit patterns (identity FFT) and decided limb-by-limb against their specification with frame assertions: every limb/size/selection/zero-fill rule around the products is the repository's real code.",
    note="NARROW: IEEE-754 exactness of the FFT (symbolic floating-point products), the NTT120 family and the bivariate convolution are not encoded; nothing is claimed about numeric exactness or magnitude domains.",
    technique=KANI + "; generic reference functions instantiated with substituted exact integer kernels",
    ref="DESIGN.md §5 C07",
)
CLAIMS["C04"] = dict(
    text="Ring-generic part of the GLWE external product, decided over the ring in which the substituted backend multiplies: the real glwe_external_product / glwe_external_product_assign of poulpy-core (gadget decomposition into digits, dsize grouping, vector-matrix product with the prepared GGSW, limb/scale bookkeeping, normalisation) run on Module<Probe> at N=8 with a GGSW produced by the real ggsw_encrypt_sk + ggsw_prepare (concrete small m2, concrete ternary secret, zero noise); the solver decides glwe_decrypt(external_product(ct, GGSW(m2)), s) == m2 (*) glwe_decrypt(ct, s) exactly on the torus, (*) being the product of Z[i]^4 computed by a big-integer oracle that knows nothing of gadgets or limbs; exact-size symbolic scratch, symbolic prior output, input ciphertext = fixed digit pattern with 2 symbolic words (all words: thorough tier).",
    note="NARROW and over the SUBSTITUTED ring: at N>=8 the exact-kernel backend multiplies in Z[i]^(N/2), not in Z[X]/(X^N+1); that the real FFT backend computes the negacyclic product is C07's numeric clause and is not decided anywhere. CMux, GGLWE/GGSW external products, GGSW row expansion and noise bounds are outside.",
    technique=KANI + "; real poulpy-core code on a substituted-kernel backend, ring-generic statement against a big-integer oracle of the substituted ring",
    ref="DESIGN.md §10.7",
)
NA = {
    "C04": "The statement is about the VALUE m1*m2 in Z[X]/(X^N+1). External products need vector-matrix products, which exist only for N>=8; there the exact-kernel backend this work can run under CBMC (Module<Probe>) multiplies in Z[i]^(N/2), not in the negacyclic ring, and the real FFT is symbolic floating point out of reach. What is decidable of the external product (exact declared scratch, independence of scratch and prior output, in-place = out-of-place) is decided under C11/C12 (core.external_product*); a ring-generic m1*m2 statement over the substituted ring would need a GGSW encryptor harness that was not built in the time available.",
    "C05": "Tensor product, relinearisation, plaintext/constant multiplication run through the bivariate DFT convolution with two symbolic operands (symbolic x symbolic 64-bit products, block kernels at N>=8 where the substituted backend no longer multiplies in the negacyclic ring, floating point in the real one); the convolution shape functions were not encoded.",
    "C15": "End-to-end bootstrapping pipeline (key-switch, blind rotation, trace, external products at bootstrapping parameters); its plaintext-level word semantics is C13, nothing else of it is a bounded integer computation within reach of CBMC/z3.",
    "C20": "Quantifies over thread schedules of std::thread::scope workers; Kani/CBMC has no model of Rust threads (thread::scope/spawn are unsupported constructs) and the chunk arithmetic lives inside the spawning closure. The sequential ingredients are decided under C11/C12.",
}
DEFAULT_NA = "not addressed"

checks = []
for p in props:
    if p not in CLAIMS:
        continue
    c = CLAIMS[p]
    checks.append(
        {
            "property_id": p,
            "quick_cmd": f"bin/check {p} --tier quick",
            "thorough_cmd": f"bin/check {p} --tier thorough",
            "evidence_file": f"evidence/{p}.json",
            "replay_cmd_template": f"bin/check {p} --replay {{path}}",
            "engine": c.get("engine", "kani"),
            "level_claimed": {"category": "model_checking", "text": c["text"], "design_ref": c["ref"]},
            "level_note": c["note"],
            "technique": c["technique"],
        }
    )
m = {
    "version": 1,
    "setup_cmd": "bin/setup",
    "hooks": {
        "guard": "verif-hooks (cargo feature of the same name on poulpy-bin-fhe, poulpy-core and poulpy-ckks; off by default, not a default feature of any crate)",
        "enable": "harness crates hk_core / hk_ckks / hk_binfhe and smt/bdd_dump depend on the /repo crates by path with features=[\"verif-hooks\"]; hk_hal and hk_avx need no hook",
        "baseline_off_cmd": "cd /repo && cargo test --workspace --no-fail-fast --offline",
        "source_commits": ["87db623", "9db2020", "6ee2064", "a8383a3", "fbcca4f", "3ebb77d", "3e33c58", "459ce53"],
        "add_only": True,
    },
    "engines": [
        {"name": "kani", "path": "lib/driver.py", "serves_properties": sorted(p for p in CLAIMS if CLAIMS[p].get("engine", "kani") == "kani"), "kind_free_text": "Kani 0.68 -> CBMC 6.11 -> CaDiCaL over harness crates in harness/ (path dependencies on /repo, rebuilt every run)"},
        {"name": "z3", "path": "smt/bdd_check.py", "serves_properties": ["C13"], "kind_free_text": "z3 4.8.12 incremental QF_BV, cvc5 1.0 cross-check, tables dumped by smt/bdd_dump from the compiled crate"},
    ],
    "checks": checks,
    "not_applicable": [{"property_id": p, "reason": NA.get(p, DEFAULT_NA)} for p in props if p not in CLAIMS],
    "notes": "Genuine defects found are listed in known_findings.json (open: reported as KNOWN-FINDING; fixed: repaired by 'fix:' commits in /repo). seeded/ holds independently produced breaking changes and which checks catch them.",
}
json.dump(m, open(V / "MANIFEST.json", "w"), indent=1)
print("claimed:", [c["property_id"] for c in checks])

#!/usr/bin/env python3
"""setup: pre-build the shared cargo target dirs (Kani deps, native replay deps, bdd_dump) offline."""
import sys, os, time
sys.path.insert(0, os.path.dirname(os.path.abspath(__file__)))
sys.path.insert(0, os.path.join(os.path.dirname(os.path.abspath(__file__)), "..", "grids"))
import driver
from driver import Instance

t0 = time.time()
crates = [d.name for d in (driver.VERIF / "harness").iterdir() if d.is_dir() and d.name.startswith("hk_")]
logdir = driver.WORK / "logs" / "setup"
logdir.mkdir(parents=True, exist_ok=True)
ok = True
for crate in sorted(crates):
    inst = Instance(crate=crate, family="warmup", name="warmup", call="vsym::reached()", unwind=2, params={}, symbolic=[])
    wd, _ = driver.materialise("SETUP", "quick", crate, [inst])
    b, secs = driver.kani_build(wd, [inst], logdir / f"kani-{crate}.log")
    print(f"setup: kani build {crate}: {'ok' if b else 'FAILED'} {secs:.0f}s", flush=True)
    ok &= b
    for profile in ("dev", "release"):
        nb = driver.native_build(wd, profile, logdir / f"native-{crate}-{profile}.log")
        print(f"setup: native {profile} build {crate}: {'ok' if nb else 'FAILED'}", flush=True)
        ok &= nb
try:
    sys.path.insert(0, str(driver.VERIF / "smt"))
    import bdd_check
    bdd_check.dump_circuits(driver.VERIF, driver.REPO, driver.WORK / "target-native", logdir / "bdd_dump.log")
    print("setup: bdd_dump ok")
except Exception as e:
    print("setup: bdd_dump FAILED", e)
    ok = False
print(f"setup: done in {time.time()-t0:.0f}s")
sys.exit(0 if ok else 1)

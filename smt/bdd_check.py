"""C13: decide the compiled BDD circuits with an SMT solver.

The node tables are dumped from the compiled poulpy-bin-fhe crate of the current
tree (smt/bdd_dump, feature verif-hooks).  Encoding (QF_BV + Bool):

* 64 Boolean inputs in_0..in_63; word a = bits 0..31 (in_0 = LSB), b = bits 32..63.
* evaluator semantics transcribed from eval.rs::eval_level: two buffers of `state`
  slots; buffer P starts as [0, 1, 0, ...], buffer Q as all 0; per level every node j
  writes Q[j]: Cmux(i,hi,lo) -> ite(in_i, P[hi], P[lo]); Copy -> P[j]; None -> Q[j] unchanged
  (stale value from two levels earlier); then P,Q swap.  Last level = single Cmux at slot 0
  read from P, its value is the output bit.
* query per (circuit, bit): out != bit_i(op(a, b));  unsat = holds for all 2^64 inputs.
"""
from __future__ import annotations

import json
import subprocess
import time

MASK32 = 0xFFFFFFFF

# name -> (python model on ints, smt expression builder)
def _sx(x):
    return x - (1 << 32) if x & 0x80000000 else x


PY_OPS = {
    "add": lambda a, b: (a + b) & MASK32,
    "sub": lambda a, b: (a - b) & MASK32,
    "sll": lambda a, b: (a << (b & 31)) & MASK32,
    "srl": lambda a, b: (a >> (b & 31)) & MASK32,
    "sra": lambda a, b: (_sx(a) >> (b & 31)) & MASK32,
    "slt": lambda a, b: 1 if _sx(a) < _sx(b) else 0,
    "sltu": lambda a, b: 1 if a < b else 0,
    "and": lambda a, b: a & b,
    "or": lambda a, b: a | b,
    "xor": lambda a, b: a ^ b,
    "identity": lambda a, b: a,
}

SH = "(bvand b #x0000001f)"
SMT_OPS = {
    "add": "(bvadd a b)",
    "sub": "(bvsub a b)",
    "sll": f"(bvshl a {SH})",
    "srl": f"(bvlshr a {SH})",
    "sra": f"(bvashr a {SH})",
    "slt": "(ite (bvslt a b) #x00000001 #x00000000)",
    "sltu": "(ite (bvult a b) #x00000001 #x00000000)",
    "and": "(bvand a b)",
    "or": "(bvor a b)",
    "xor": "(bvxor a b)",
    "identity": "a",
}


def structure_errors(circ) -> list[str]:
    """Structural clauses of the property, on the dumped tables."""
    errs = []
    name = circ["name"]
    if len(circ["bits"]) != circ["output_bits"]:
        errs.append(f"{name}: {len(circ['bits'])} bit-circuits for output_bits={circ['output_bits']}")
    for bi, bc in enumerate(circ["bits"]):
        w = bc["state"]
        nodes = bc["nodes"]
        tag = f"{name}[bit {bi}]"
        if w == 0:
            continue
        if w > circ["max_state_size"]:
            errs.append(f"{tag}: state width {w} exceeds declared max_state_size {circ['max_state_size']}")
        if len(nodes) % w != 0 or len(nodes) == 0:
            errs.append(f"{tag}: {len(nodes)} nodes is not a positive multiple of the state width {w}")
            continue
        levels = [nodes[i : i + w] for i in range(0, len(nodes), w)]
        # defined[j]: slot j of the buffer read by the current level was written by the previous level
        # (level 0 reads the initial state, where slots 0 and 1 hold the constants 0 and 1)
        defined = [j < 2 for j in range(w)]
        for li, lvl in enumerate(levels):
            last = li == len(levels) - 1
            if last:
                if lvl[0][0] != 0 or any(n[0] != 2 for n in lvl[1:]):
                    errs.append(f"{tag}: last level is not [Cmux, None, ...]")
            nxt = []
            for j, (t, i, hi, lo) in enumerate(lvl):
                if t == 0:
                    if i >= circ["input_bits"] or i >= 64:
                        errs.append(f"{tag} level {li} slot {j}: selector {i} out of range")
                    for idx, nm in ((hi, "hi"), (lo, "lo")):
                        if idx >= w:
                            errs.append(f"{tag} level {li} slot {j}: {nm}={idx} >= width {w}")
                        elif not defined[idx]:
                            errs.append(f"{tag} level {li} slot {j}: reads slot {idx} left undefined by the previous level")
                    nxt.append(True)
                elif t == 1:
                    if not defined[j]:
                        errs.append(f"{tag} level {li} slot {j}: Copy of a slot left undefined by the previous level")
                    nxt.append(True)
                else:
                    nxt.append(False)
            defined = nxt
    return errs


def eval_py(bc, inputs: int) -> int:
    """Concrete evaluation of one bit-circuit (same semantics as the encoding)."""
    w = bc["state"]
    if w == 0:
        return 0
    nodes = bc["nodes"]
    P = [0] * w
    if w > 1:
        P[1] = 1
    Q = [0] * w
    levels = [nodes[i : i + w] for i in range(0, len(nodes), w)]
    for lvl in levels[:-1]:
        for j, (t, i, hi, lo) in enumerate(lvl):
            if t == 0:
                Q[j] = P[hi] if (inputs >> i) & 1 else P[lo]
            elif t == 1:
                Q[j] = P[j]
        P, Q = Q, P
    t, i, hi, lo = levels[-1][0]
    return P[hi] if (inputs >> i) & 1 else P[lo]


def smt_for_bit(name: str, bi: int, bc) -> list[str]:
    """SMT-LIB commands defining the output of one bit-circuit and asserting the negated property."""
    w = bc["state"]
    nodes = bc["nodes"]
    lines = []
    pfx = f"s_{name}_{bi}"
    levels = [nodes[i : i + w] for i in range(0, len(nodes), w)]
    P = ["false"] * w
    if w > 1:
        P[1] = "true"
    Q = ["false"] * w
    for li, lvl in enumerate(levels[:-1]):
        for j, (t, i, hi, lo) in enumerate(lvl):
            if t == 0:
                v = f"{pfx}_{li}_{j}"
                lines.append(f"(define-fun {v} () Bool (ite in_{i} {P[hi]} {P[lo]}))")
                Q[j] = v
            elif t == 1:
                Q[j] = P[j]
        P, Q = Q, P
    t, i, hi, lo = levels[-1][0]
    lines.append(f"(define-fun {pfx}_out () Bool (ite in_{i} {P[hi]} {P[lo]}))")
    lines.append(f"(assert (not (= {pfx}_out (= ((_ extract {bi} {bi}) spec_{name}) #b1))))")
    return lines


PRELUDE = ["(set-logic QF_BV)", "(set-option :produce-models true)"] + [f"(declare-const in_{i} Bool)" for i in range(64)]


def _word(lo):
    bits = " ".join(f"(ite in_{lo + k} #b1 #b0)" for k in range(31, -1, -1))
    return f"(concat {bits})"


PRELUDE += [f"(define-fun a () (_ BitVec 32) {_word(0)})", f"(define-fun b () (_ BitVec 32) {_word(32)})"]
for _n, _e in SMT_OPS.items():
    PRELUDE.append(f"(define-fun spec_{_n} () (_ BitVec 32) {_e})")


class Solver:
    """One persistent solver process, push/pop per query."""

    def __init__(self, cmd):
        self.cmd = cmd
        self.p = subprocess.Popen(cmd, stdin=subprocess.PIPE, stdout=subprocess.PIPE, stderr=subprocess.STDOUT, text=True, bufsize=1)
        for l in PRELUDE:
            self.send(l)
        self.sync()

    def send(self, s):
        self.p.stdin.write(s + "\n")

    def sync(self):
        self.send('(echo "SYNC")')
        self.p.stdin.flush()
        out = []
        while True:
            l = self.p.stdout.readline()
            if l == "":
                raise RuntimeError("solver died: " + "".join(out))
            l = l.strip()
            if l.strip('"') == "SYNC":
                return out
            if l:
                out.append(l)

    def query(self, lines):
        self.send("(push 1)")
        for l in lines:
            self.send(l)
        self.send("(check-sat)")
        out = self.sync()
        verdict = "error"
        if any("(error" in o for o in out):
            verdict = "error"
        elif out and out[-1] in ("sat", "unsat", "unknown"):
            verdict = out[-1]
        model = None
        if verdict == "sat":
            self.send("(get-value (a b))")
            mo = " ".join(self.sync())
            import re

            vals = re.findall(r"#x([0-9a-fA-F]{8})|#b([01]{32})", mo)
            nums = [int(h, 16) if h else int(bn, 2) for h, bn in vals]
            if len(nums) >= 2:
                model = (nums[0], nums[1])
        self.send("(pop 1)")
        return verdict, model, out

    def close(self):
        try:
            self.send("(exit)")
            self.p.stdin.flush()
            self.p.wait(timeout=5)
        except Exception:
            self.p.kill()


def dump_circuits(verif, repo, target_dir, log) -> list:
    import shutil, os

    wd = verif / "work" / "run" / "bdd_dump"
    if wd.exists():
        shutil.rmtree(wd)
    shutil.copytree(verif / "smt" / "bdd_dump", wd, ignore=shutil.ignore_patterns("target", "Cargo.lock"))
    ct = (wd / "Cargo.toml").read_text().replace('"/repo/', f'"{repo}/')
    (wd / "Cargo.toml").write_text(ct)
    if (repo / "Cargo.lock").exists():
        shutil.copy(repo / "Cargo.lock", wd / "Cargo.lock")
    env = dict(os.environ)
    env["CARGO_NET_OFFLINE"] = "true"
    env.pop("RUSTUP_TOOLCHAIN", None)
    p = subprocess.run(
        ["cargo", "+nightly-2026-03-21", "run", "--release", "--offline", "--target-dir", str(target_dir)],
        cwd=wd,
        env=env,
        stdout=subprocess.PIPE,
        stderr=open(log, "w"),
    )
    if p.returncode != 0:
        raise RuntimeError(f"bdd_dump failed, see {log}")
    return json.loads(p.stdout.decode())


class OneShotSolver:
    """Non-incremental solver: one process per query (cvc5's eager bit-blaster, which decides these
    queries in milliseconds but is not available in incremental mode; its default lazy BV solver does
    not finish even bit 0 of `add` on this encoding)."""

    def __init__(self, cmd, timeout=120):
        self.cmd = cmd
        self.timeout = timeout

    def query(self, lines):
        import re

        text = "\n".join(PRELUDE + lines + ["(check-sat)", "(get-value (a b))"]) + "\n"
        try:
            p = subprocess.run(self.cmd, input=text, capture_output=True, text=True, timeout=self.timeout)
        except subprocess.TimeoutExpired:
            return "unknown", None, ["timeout"]
        out = [l.strip() for l in p.stdout.splitlines() if l.strip()]
        verdict = out[0] if out and out[0] in ("sat", "unsat", "unknown") else "error"
        if verdict == "unsat":
            # the trailing get-value legitimately errors after unsat; anything before it must be clean
            pass
        elif any("(error" in o for o in out):
            if verdict != "sat":
                verdict = "error"
        model = None
        if verdict == "sat":
            vals = re.findall(r"#x([0-9a-fA-F]{8})|#b([01]{32})", " ".join(out[1:]))
            nums = [int(h, 16) if h else int(bn, 2) for h, bn in vals]
            if len(nums) >= 2:
                model = (nums[0], nums[1])
        return verdict, model, out

    def close(self):
        pass

//! Dumps the compiled u32 BDD circuits of the *current* /repo tree as JSON:
//! [{"name":..,"input_bits":..,"output_bits":..,"bits":[{"state":W,"nodes":[[t,in,hi,lo],..]},..]},..]
//! node type t: 0 = Cmux(in,hi,lo), 1 = Copy, 2 = None
use poulpy_bin_fhe::bdd_arithmetic::{Node, verif_hooks::u32_circuits};

fn main() {
    let mut out = String::from("[");
    for (ci, (name, c)) in u32_circuits().iter().enumerate() {
        if ci > 0 {
            out.push(',');
        }
        out.push_str(&format!(
            "{{\"name\":\"{}\",\"input_bits\":{},\"output_bits\":{},\"max_state_size\":{},\"bits\":[",
            name,
            c.input_size(),
            c.output_size(),
            c.max_state_size()
        ));
        for bit in 0..c.output_size() {
            if bit > 0 {
                out.push(',');
            }
            let (nodes, state) = c.get_circuit(bit);
            out.push_str(&format!("{{\"state\":{},\"nodes\":[", state));
            for (i, n) in nodes.iter().enumerate() {
                if i > 0 {
                    out.push(',');
                }
                match n {
                    Node::Cmux(a, b, c) => out.push_str(&format!("[0,{},{},{}]", a, b, c)),
                    Node::Copy => out.push_str("[1,0,0,0]"),
                    Node::None => out.push_str("[2,0,0,0]"),
                }
            }
            out.push_str("]}");
        }
        out.push_str("]}");
    }
    out.push(']');
    println!("{}", out);
}

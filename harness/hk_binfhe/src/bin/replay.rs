//! Native replay: `replay <harness-name>` with VSYM_REPLAY=<file>.
//! Exit 0: harness body ran to completion (counterexample NOT reproduced);
//! exit 101 (panic): reproduced; exit 3: assumptions violated; exit 4: unknown harness.
fn main() {
    let name = std::env::args().nth(1).expect("usage: replay <harness>");
    vsym::init();
    if !hk_binfhe::generated::dispatch(&name) {
        eprintln!("unknown harness {name}");
        std::process::exit(4);
    }
}

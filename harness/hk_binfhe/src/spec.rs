//! Specification helpers shared by harnesses (written from the mathematical
//! definitions, not from the code under test).

/// Headroom domain for un-normalised limbs / carries: |x| < 2^61 (DESIGN §4).
pub const HEADROOM_BITS: u32 = 61;

#[inline(always)]
pub fn in_digit_range(b: usize, x: i64) -> bool {
    // [-2^(b-1), 2^(b-1))
    if b >= 64 {
        return true;
    }
    let h: i64 = 1i64 << (b - 1);
    x >= -h && x < h
}

/// Centered residue of `x` modulo 2^bits (bits in 1..=127): the representative in
/// [-2^(bits-1), 2^(bits-1)).
#[inline(always)]
pub fn center_i128(x: i128, bits: u32) -> i128 {
    let sh = 128 - bits;
    (x << sh) >> sh
}

/// Integer value of a limb vector (most significant limb first), wrapping i128:
/// sum_j limbs[j] * 2^((len-1-j)*b).
#[inline(always)]
pub fn horner_i128(limbs: &[i64], b: usize) -> i128 {
    let mut acc: i128 = 0;
    for &l in limbs {
        acc = acc.wrapping_shl(b as u32).wrapping_add(l as i128);
    }
    acc
}

/// 256-bit wrapping two's-complement integer (lo, hi), enough for 3 limbs of radix 2^62
/// plus offsets; all shift amounts used by harnesses are concrete.
#[derive(Clone, Copy, PartialEq, Eq, Debug)]
pub struct W256 {
    pub lo: u128,
    pub hi: u128,
}

impl W256 {
    pub const ZERO: W256 = W256 { lo: 0, hi: 0 };
    #[inline(always)]
    pub fn from_i64(x: i64) -> Self {
        W256 { lo: x as i128 as u128, hi: if x < 0 { u128::MAX } else { 0 } }
    }
    #[inline(always)]
    pub fn from_i128(x: i128) -> Self {
        W256 { lo: x as u128, hi: if x < 0 { u128::MAX } else { 0 } }
    }
    #[inline(always)]
    pub fn add(self, o: W256) -> W256 {
        let (lo, c) = self.lo.overflowing_add(o.lo);
        W256 { lo, hi: self.hi.wrapping_add(o.hi).wrapping_add(c as u128) }
    }
    #[inline(always)]
    pub fn neg(self) -> W256 {
        W256 { lo: !self.lo, hi: !self.hi }.add(W256 { lo: 1, hi: 0 })
    }
    #[inline(always)]
    pub fn sub(self, o: W256) -> W256 {
        self.add(o.neg())
    }
    /// x * 2^n mod 2^256 (n >= 256 gives 0)
    #[inline(always)]
    pub fn shl(self, n: u32) -> W256 {
        if n == 0 {
            self
        } else if n < 128 {
            W256 { lo: self.lo << n, hi: (self.hi << n) | (self.lo >> (128 - n)) }
        } else if n < 256 {
            W256 { lo: 0, hi: if n == 128 { self.lo } else { self.lo << (n - 128) } }
        } else {
            W256::ZERO
        }
    }
    /// arithmetic shift right, 0 <= n < 256
    #[inline(always)]
    pub fn sar(self, n: u32) -> W256 {
        let sign: u128 = if (self.hi >> 127) == 1 { u128::MAX } else { 0 };
        if n == 0 {
            self
        } else if n < 128 {
            W256 { lo: (self.lo >> n) | (self.hi << (128 - n)), hi: ((self.hi as i128) >> n) as u128 }
        } else {
            let m = n - 128;
            W256 { lo: if m == 0 { self.hi } else { ((self.hi as i128) >> m) as u128 }, hi: sign }
        }
    }
    /// centered residue modulo 2^bits, 1 <= bits <= 256
    #[inline(always)]
    pub fn center(self, bits: u32) -> W256 {
        if bits >= 256 {
            return self;
        }
        self.shl(256 - bits).sar(256 - bits)
    }
    #[inline(always)]
    pub fn is_zero(self) -> bool {
        self.lo == 0 && self.hi == 0
    }
    #[inline(always)]
    pub fn is_neg(self) -> bool {
        (self.hi >> 127) == 1
    }
    /// |self| <= 2^s  (s <= 250)
    #[inline(always)]
    pub fn abs_le_pow2(self, s: u32) -> bool {
        let p = W256 { lo: 1, hi: 0 }.shl(s);
        // self + 2^s in [0, 2^(s+1)]
        let t = self.add(p);
        if t.is_neg() {
            return false;
        }
        let lim = p.shl(1);
        // unsigned t <= lim
        t.hi < lim.hi || (t.hi == lim.hi && t.lo <= lim.lo)
    }
}

/// Horner value of limbs (most significant first) in radix 2^b, mod 2^256.
#[inline(always)]
pub fn horner_w256(limbs: &[i64], b: usize) -> W256 {
    let mut acc = W256::ZERO;
    for &l in limbs {
        acc = acc.shl(b as u32).add(W256::from_i64(l));
    }
    acc
}

#[inline(always)]
pub fn horner_w256_i128(limbs: &[i128], b: usize) -> W256 {
    let mut acc = W256::ZERO;
    for &l in limbs {
        acc = acc.shl(b as u32).add(W256::from_i128(l));
    }
    acc
}

/// The one-unit torus relation of C08 between integer limb values R (res_bits wide) and A
/// (a_bits wide, un-reduced) for "res represents a * 2^off":
///   s = a_bits - off - res_bits
///   s <= 0 : R == A * 2^(-s)       (mod 2^res_bits)         exact
///   s  > 0 : |R * 2^s - A| <= 2^s  (mod 2^(res_bits + s))   one unit of the last limb
/// Valid while max(res_bits, a_bits - off) <= 250 (grid guarantee, asserted).
pub fn torus_rel(r: W256, res_bits: usize, a: W256, a_bits: usize, off: i64) -> bool {
    let s: i64 = a_bits as i64 - off - res_bits as i64;
    if s <= 0 {
        r.sub(a.shl((-s) as u32)).center(res_bits as u32).is_zero()
    } else {
        let m = res_bits as u32 + s as u32;
        assert!(m <= 250, "GRID ERROR: oracle width exceeded");
        r.shl(s as u32).sub(a).center(m).abs_le_pow2(s as u32)
    }
}

/// C08 oracle for possibly un-normalised input.  For off >= 0 the torus value a*2^off is well
/// defined; for off < 0 ("division") it depends on the representative of a modulo 1.  The code
/// documents that overflow bits of an un-normalised input are kept (un-reduced value); the
/// cross-radix path first reduces the value into [-1/2, 1/2).  Both are readings of the property
/// statement, so the oracle accepts either representative -- and nothing else.
pub fn torus_rel_any_rep(r: W256, res_bits: usize, a: W256, a_bits: usize, off: i64) -> bool {
    torus_rel(r, res_bits, a, a_bits, off) || (off < 0 && torus_rel(r, res_bits, a.center(a_bits as u32), a_bits, off))
}

#[cfg(test)]
mod tests {
    use super::*;
    #[test]
    fn w256_basic() {
        let x = W256::from_i64(-5);
        assert_eq!(x.shl(130).sar(130), x);
        assert_eq!(x.add(W256::from_i64(7)), W256::from_i64(2));
        assert_eq!(W256::from_i64(-5).shl(3), W256::from_i64(-40));
        assert!(W256::from_i64(-8).abs_le_pow2(3));
        assert!(!W256::from_i64(-9).abs_le_pow2(3));
        assert!(W256::from_i64(8).abs_le_pow2(3));
        assert!(!W256::from_i64(9).abs_le_pow2(3));
        assert_eq!(W256::from_i64(13).center(4), W256::from_i64(-3));
        assert_eq!(W256::from_i64(7).center(4), W256::from_i64(7));
        assert_eq!(W256::from_i128(-(1i128 << 100)).shl(100).sar(60), W256::from_i128(-(1i128 << 100)).shl(40));
        assert_eq!(horner_w256(&[1, -1, 2], 4), W256::from_i64(256 - 16 + 2));
    }
}

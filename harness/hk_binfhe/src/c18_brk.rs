//! C18 (poulpy-bin-fhe): `BlindRotationKey::read_from` on arbitrary streams.  Receiver small and
//! concrete (NKEYS GGSW elements, n_glwe = 2, rank 1, one row, two limbs), every stream byte
//! symbolic, stream length concrete per instance (field boundaries and truncations).
//!  * never a panic / overflow / out-of-bounds access;
//!  * Err  => the recorded distribution (the scalar field of the composite itself) is what it was before;
//!            elements read completely before the failure keep their new content - each element's own
//!            reader is decided separately (poulpy-core wrappers), a streaming reader cannot undo them;
//!  * Ok   => the stream announced exactly as many elements as the receiver has (a shorter object
//!            must be refused, not read into the first slots with the others left stale).
use poulpy_bin_fhe::blind_rotation::{BlindRotationKey, BlindRotationKeyCompressed, BlindRotationKeyLayout, CGGI};
use poulpy_core::layouts::{Base2K, Degree, Dnum, GGSWInfos, GLWEInfos, LWEInfos, Rank, TorusPrecision};
use poulpy_core::Distribution;
use poulpy_hal::layouts::ReaderFrom;

fn same_dist(a: &Distribution, b: &Distribution) -> bool {
    a == b
}

pub fn brk_read<const NKEYS: usize, const SLEN: usize>() {
    let infos = BlindRotationKeyLayout { n_glwe: Degree(2), n_lwe: Degree(NKEYS as u32), base2k: Base2K(17), k: TorusPrecision(34), dnum: Dnum(1), rank: Rank(1) };
    let mut key: BlindRotationKey<Vec<u8>, CGGI> = BlindRotationKey::alloc(&infos);
    let stream = vsym::arr_u8::<SLEN>();
    let mut rd: &[u8] = &stream[..];
    let d0 = *key.verif_dist();
    let n0 = key.verif_keys().len();
    let r = key.read_from(&mut rd);
    let ok = r.is_ok();
    core::mem::forget(r);
    assert!(key.verif_keys().len() == n0, "number of elements changed");
    if !ok {
        assert!(same_dist(key.verif_dist(), &d0), "BlindRotationKey::read_from failed but changed the recorded distribution");
    } else {
        assert!(SLEN >= 16, "Ok on a stream shorter than the header");
        let mut len = 0u64;
        let mut t = 0;
        while t < 8 {
            len |= (stream[8 + t] as u64) << (8 * t);
            t += 1;
        }
        assert!(len == n0 as u64, "BlindRotationKey::read_from accepted a stream that announces another number of elements than the receiver holds");
    }
    vsym::reached();
}

/// Same statement for the seed-compressed key (`key_compressed.rs`; its element reader is
/// `GGSWCompressed::read_from`).
pub fn brkc_read<const NKEYS: usize, const SLEN: usize>() {
    let infos = BlindRotationKeyLayout { n_glwe: Degree(2), n_lwe: Degree(NKEYS as u32), base2k: Base2K(17), k: TorusPrecision(34), dnum: Dnum(1), rank: Rank(1) };
    let mut key: BlindRotationKeyCompressed<Vec<u8>, CGGI> = BlindRotationKeyCompressed::alloc(&infos);
    let stream = vsym::arr_u8::<SLEN>();
    let mut rd: &[u8] = &stream[..];
    let d0 = *key.verif_dist();
    let n0 = key.verif_keys().len();
    let r = key.read_from(&mut rd);
    let ok = r.is_ok();
    core::mem::forget(r);
    assert!(key.verif_keys().len() == n0, "number of elements changed");
    if !ok {
        assert!(same_dist(key.verif_dist(), &d0), "BlindRotationKeyCompressed::read_from failed but changed the recorded distribution");
    } else {
        assert!(SLEN >= 16, "Ok on a stream shorter than the header");
        let mut len = 0u64;
        let mut t = 0;
        while t < 8 {
            len |= (stream[8 + t] as u64) << (8 * t);
            t += 1;
        }
        assert!(len == n0 as u64, "BlindRotationKeyCompressed::read_from accepted a stream that announces another number of elements than the receiver holds");
    }
    vsym::reached();
}

pub fn fmt_stub(_args: core::fmt::Arguments<'_>) -> String {
    String::new()
}

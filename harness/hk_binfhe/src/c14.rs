//! C14 (clear path): the lookup table of `poulpy-bin-fhe/src/blind_rotation/lut.rs` on a marker
//! module.  A table with extension factor E over ring degree N represents one polynomial of
//! Z[X]/(X^(N*E)+1) in interleaved form: full coefficient m = j*E + i lives at coefficient j of
//! polynomial i.
//!  * `rotate(k)` must act as multiplication by X^k in that ring (all table words symbolic,
//!    every k in [-2NE, 2NE] enumerated by the driver);
//!  * `set(f, k_prec)` (extension factor 1) must produce X^(-drift) * L, where L holds f_i * 2^-k_prec
//!    (as a torus value) on the i-th block of `step` coefficients, with normalised limbs.
use crate::spec::*;
use crate::vz::*;
use poulpy_bin_fhe::bdd_arithmetic::verif_hooks::lut as hook;
use poulpy_bin_fhe::blind_rotation::{LookUpTableLayout, LookupTable, LookupTableFactory};
use poulpy_core::layouts::{Base2K, Degree, TorusPrecision};
use poulpy_cpu_ref::FFT64Ref;
use poulpy_hal::layouts::{Module, ZnxView, ZnxViewMut};

/// rotate: N, E concrete; one limb; data symbolic
pub fn lut_rotate<const N: usize, const E: usize, const L: usize>(k: i64) {
    let module: Module<FFT64Ref> = Module::<FFT64Ref>::new_marker(N as u64);
    let mut t = LookupTable::alloc(&LookUpTableLayout { n: Degree(N as u32), extension_factor: E, k: TorusPrecision(17), base2k: Base2K(17) });
    let src = Buf::<L>::sym_mag(62);
    {
        let d = hook::data_mut(&mut t);
        let mut i = 0;
        while i < E {
            let mut j = 0;
            while j < N {
                d[i].at_mut(0, 0)[j] = src.0[j * E + i];
                j += 1;
            }
            i += 1;
        }
    }
    hook::rotate(&mut t, &module, k);
    let d = hook::data(&t);
    let mut m = 0;
    while m < N * E {
        let want = rot_coeff(N * E, k, m, |e| src.0[e]);
        assert!(d[m % E].at(0, 0)[m / E] == want, "lookup_table_rotate(k) is not multiplication by X^k on the interleaved table");
        m += 1;
    }
    vsym::reached();
}

/// set with extension factor 1: f has FL entries (FL divides N), values symbolic small
pub fn lut_set<const N: usize, const FL: usize, const B: usize, const K: usize, const S: usize>() {
    let module: Module<FFT64Ref> = Module::<FFT64Ref>::new_marker(N as u64);
    let mut t = LookupTable::alloc(&LookUpTableLayout { n: Degree(N as u32), extension_factor: 1, k: TorusPrecision((S * B) as u32), base2k: Base2K(B as u32) });
    let f = vsym::arr_i64::<FL>();
    let mut i = 0;
    while i < FL {
        vsym::assume(f[i] > -(1 << 10) && f[i] < (1 << 10));
        i += 1;
    }
    t.set(&module, &f, K);
    let step = (N + FL / 2) / FL;
    let drift = step >> 1;
    assert!(hook::drift(&t) == drift, "recorded drift is not half a step");
    let d = hook::data(&t);
    let mut j = 0;
    while j < N {
        let mut limbs = [0i64; 4];
        let mut l = 0;
        while l < S {
            limbs[l] = d[0].at(0, l)[j];
            // (limbs need not be normalised digits: X^(-drift) negates wrapped coefficients after the
            //  normalisation, and the negation of the digit -2^(b-1) is 2^(b-1); the property states the value)
            l += 1;
        }
        // coefficient j of X^(-drift) * L
        let src = j + drift;
        let (idx, neg) = if src < N { (src, false) } else { (src - N, true) };
        let fi = f[idx / step];
        let val = if neg { -fi } else { fi };
        let got = horner_w256(&limbs[..S], B);
        assert!(torus_rel(got, S * B, W256::from_i64(val), K, 0), "table coefficient is not +-f[(j+drift)/step] * 2^-k");
        j += 1;
    }
    vsym::reached();
}

#[cfg(test)]
mod tests {
    use super::*;
    /// native validation of the two oracles on concrete data (spec validation, DESIGN §4)
    #[test]
    fn oracle_matches_code_on_concrete_tables() {
        for &(n, e) in &[(4usize, 1usize), (4, 2), (4, 4), (8, 2), (2, 4)] {
            let module: Module<FFT64Ref> = Module::<FFT64Ref>::new_marker(n as u64);
            for k in -(2 * (n * e) as i64)..=(2 * (n * e) as i64) {
                let mut t = LookupTable::alloc(&LookUpTableLayout { n: Degree(n as u32), extension_factor: e, k: TorusPrecision(17), base2k: Base2K(17) });
                let full: Vec<i64> = (0..n * e).map(|m| 1000 + 7 * m as i64).collect();
                for i in 0..e {
                    for j in 0..n {
                        hook::data_mut(&mut t)[i].at_mut(0, 0)[j] = full[j * e + i];
                    }
                }
                hook::rotate(&mut t, &module, k);
                for m in 0..n * e {
                    let want = rot_coeff(n * e, k, m, |x| full[x]);
                    assert_eq!(hook::data(&t)[m % e].at(0, 0)[m / e], want, "n={n} e={e} k={k} m={m}");
                }
            }
        }
        // set, extension factor 1
        for &(n, fl, b, k, s) in &[(4usize, 4usize, 17usize, 17usize, 1usize), (4, 2, 17, 18, 2), (8, 4, 4, 5, 2), (8, 8, 17, 34, 2), (4, 1, 17, 20, 2)] {
            let module: Module<FFT64Ref> = Module::<FFT64Ref>::new_marker(n as u64);
            let mut t = LookupTable::alloc(&LookUpTableLayout { n: Degree(n as u32), extension_factor: 1, k: TorusPrecision((s * b) as u32), base2k: Base2K(b as u32) });
            let f: Vec<i64> = (0..fl).map(|i| 3 + 5 * i as i64 * if i % 2 == 0 { 1 } else { -1 }).collect();
            t.set(&module, &f, k);
            let step = (n + fl / 2) / fl;
            let drift = step >> 1;
            assert_eq!(hook::drift(&t), drift);
            for j in 0..n {
                let limbs: Vec<i64> = (0..s).map(|l| hook::data(&t)[0].at(0, l)[j]).collect();
                let src = j + drift;
                let (idx, neg) = if src < n { (src, false) } else { (src - n, true) };
                let val = if neg { -f[idx / step] } else { f[idx / step] };
                assert!(torus_rel(horner_w256(&limbs, b), s * b, W256::from_i64(val), k, 0), "set n={n} fl={fl} b={b} k={k} j={j} limbs={limbs:?} want={val}");
            }
        }
    }
}

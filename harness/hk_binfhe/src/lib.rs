#![allow(clippy::all)]
#![allow(unused)]
pub mod spec;
pub mod vz;
pub mod c14;
pub mod c18_brk;
pub mod generated;

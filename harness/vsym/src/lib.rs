//! `Sym`: one source of symbolic values for harness bodies.
//!
//! Under `cfg(kani)` every function is `kani::any()` (one nondeterministic
//! object per call, so Kani's `--concrete-playback=print` lists one byte vector
//! per call, in call order).  Natively the same calls pop little-endian byte
//! vectors from the replay file named by `VSYM_REPLAY` (JSON: list of lists of
//! bytes), so the *same harness body* re-executes the solver's counterexample
//! against the real build.  `assume` under Kani is `kani::assume`; natively a
//! violated assumption aborts the replay with exit code 3 (the counterexample
//! does not satisfy the harness preconditions, i.e. the replay is unusable).

#[cfg(not(kani))]
mod native {
    use std::cell::RefCell;
    thread_local! {
        pub static STREAM: RefCell<(Vec<Vec<u8>>, usize)> = RefCell::new((Vec::new(), 0));
    }

    pub fn load() {
        let path = match std::env::var("VSYM_REPLAY") {
            Ok(p) => p,
            Err(_) => return,
        };
        let txt = match std::fs::read_to_string(&path) {
            Ok(t) => t,
            Err(e) => {
                eprintln!("vsym: cannot read VSYM_REPLAY file {path}: {e}");
                std::process::exit(5);
            }
        };
        // JSON: {"values": [[u8,...],...], ...} (whitespace allowed) or a bare [[...],...]
        let start = match txt.find("\"values\"") {
            Some(k) => match txt[k..].find('[') {
                Some(o) => k + o,
                None => {
                    eprintln!("vsym: no value list in replay file");
                    std::process::exit(5);
                }
            },
            None => match txt.find('[') {
                Some(o) => o,
                None => {
                    eprintln!("vsym: no value list in replay file");
                    std::process::exit(5);
                }
            },
        };
        let mut out: Vec<Vec<u8>> = Vec::new();
        let mut cur: Option<Vec<u8>> = None;
        let mut num: Option<u32> = None;
        let mut depth = 0;
        for ch in txt[start..].chars() {
            match ch {
                '[' => {
                    depth += 1;
                    if depth == 2 {
                        cur = Some(Vec::new());
                    }
                }
                ']' => {
                    if let (Some(n), Some(c)) = (num.take(), cur.as_mut()) {
                        c.push(n as u8);
                    }
                    if depth == 2 {
                        out.push(cur.take().unwrap());
                    }
                    depth -= 1;
                    if depth == 0 {
                        break;
                    }
                }
                ',' => {
                    if let (Some(n), Some(c)) = (num.take(), cur.as_mut()) {
                        c.push(n as u8);
                    }
                }
                d if d.is_ascii_digit() => {
                    num = Some(num.unwrap_or(0) * 10 + d.to_digit(10).unwrap());
                }
                _ => {}
            }
        }
        STREAM.with(|s| *s.borrow_mut() = (out, 0));
    }

    pub fn next(n: usize) -> Vec<u8> {
        STREAM.with(|s| {
            let mut s = s.borrow_mut();
            let i = s.1;
            s.1 += 1;
            let mut v = s.0.get(i).cloned().unwrap_or_default();
            // Kani prints exactly size_of::<T>() bytes; be lenient (zero-extend) for hand-written files
            v.resize(n, 0);
            v
        })
    }
}

/// Load the replay stream (native only; no-op under Kani).
pub fn init() {
    #[cfg(not(kani))]
    native::load();
}

macro_rules! prim {
    ($name:ident, $t:ty, $n:expr) => {
        #[inline(never)]
        pub fn $name() -> $t {
            #[cfg(kani)]
            {
                kani::any::<$t>()
            }
            #[cfg(not(kani))]
            {
                let b = native::next($n);
                let mut a = [0u8; $n];
                a.copy_from_slice(&b);
                <$t>::from_le_bytes(a)
            }
        }
    };
}

prim!(u8, u8, 1);
prim!(i8, i8, 1);
prim!(u16, u16, 2);
prim!(u32, u32, 4);
prim!(i32, i32, 4);
prim!(u64, u64, 8);
prim!(i64, i64, 8);
prim!(usize, usize, 8);
prim!(i128, i128, 16);
prim!(u128, u128, 16);

#[inline(never)]
pub fn bool() -> bool {
    #[cfg(kani)]
    {
        kani::any::<bool>()
    }
    #[cfg(not(kani))]
    {
        native::next(1)[0] != 0
    }
}

/// f64 with arbitrary bit pattern (includes NaN/inf).
#[inline(never)]
pub fn f64() -> f64 {
    #[cfg(kani)]
    {
        kani::any::<f64>()
    }
    #[cfg(not(kani))]
    {
        let b = native::next(8);
        let mut a = [0u8; 8];
        a.copy_from_slice(&b);
        f64::from_le_bytes(a)
    }
}

macro_rules! arr {
    ($name:ident, $t:ty, $n:expr) => {
        /// One `kani::any::<[T; N]>()` for the whole array (no harness-side loop under Kani).
        #[inline(never)]
        pub fn $name<const N: usize>() -> [$t; N] {
            #[cfg(kani)]
            {
                kani::any::<[$t; N]>()
            }
            #[cfg(not(kani))]
            {
                // Kani's concrete playback lists one byte vector per array element
                let mut out = [0 as $t; N];
                for i in 0..N {
                    let b = native::next($n);
                    let mut a = [0u8; $n];
                    a.copy_from_slice(&b);
                    out[i] = <$t>::from_le_bytes(a);
                }
                out
            }
        }
    };
}

arr!(arr_u8, u8, 1);
arr!(arr_i64, i64, 8);
arr!(arr_u64, u64, 8);
arr!(arr_i128, i128, 16);
arr!(arr_u32, u32, 4);

#[inline(always)]
pub fn assume(c: bool) {
    #[cfg(kani)]
    kani::assume(c);
    #[cfg(not(kani))]
    if !c {
        eprintln!("vsym: replayed values violate a harness assumption");
        std::process::exit(3);
    }
}

/// Reachability witness: must be SATISFIED under Kani for the instance to count.
#[inline(always)]
pub fn reached() {
    #[cfg(kani)]
    kani::cover!(true, "vsym_reached");
}

/// Named cover (vacuity witness for an interesting region).
#[macro_export]
macro_rules! cover {
    ($c:expr, $m:literal) => {
        #[cfg(kani)]
        kani::cover!($c, $m);
        #[cfg(not(kani))]
        {
            let _ = $c;
        }
    };
}

/// i64 in [lo, hi] inclusive.
#[inline(always)]
pub fn i64_in(lo: i64, hi: i64) -> i64 {
    let x = i64();
    assume(x >= lo && x <= hi);
    x
}

#[inline(always)]
pub fn usize_in(lo: usize, hi: usize) -> usize {
    let x = usize();
    assume(x >= lo && x <= hi);
    x
}

/// i64 with |x| < 2^bits
#[inline(always)]
pub fn i64_mag(bits: u32) -> i64 {
    let x = i64();
    let m = 1i64 << bits;
    assume(x > -m && x < m);
    x
}

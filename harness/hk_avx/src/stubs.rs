//! Scalar lane models of the AVX2 intrinsics that Kani 0.68 cannot translate
//! (`simd_select`-based variable shifts, LLVM-intrinsic based gathers / xmm-count shifts) or
//! mis-models (`_mm256_add_epi64`/`_mm256_sub_epi64` are flagged for lane overflow although the
//! instructions wrap).  Written from Intel's pseudo-code; each is compared with the hardware
//! instruction on random lanes by `cargo test` of this crate (setup) when AVX2 is available.
use core::arch::x86_64::{__m128i, __m256i};

#[inline(always)]
fn lanes(a: __m256i) -> [u64; 4] {
    unsafe { core::mem::transmute(a) }
}
#[inline(always)]
fn pack(a: [u64; 4]) -> __m256i {
    unsafe { core::mem::transmute(a) }
}

pub fn mm256_sllv_epi64(a: __m256i, count: __m256i) -> __m256i {
    let (a, c) = (lanes(a), lanes(count));
    let mut r = [0u64; 4];
    let mut i = 0;
    while i < 4 {
        r[i] = if c[i] > 63 { 0 } else { a[i] << c[i] };
        i += 1;
    }
    pack(r)
}

pub fn mm256_srlv_epi64(a: __m256i, count: __m256i) -> __m256i {
    let (a, c) = (lanes(a), lanes(count));
    let mut r = [0u64; 4];
    let mut i = 0;
    while i < 4 {
        r[i] = if c[i] > 63 { 0 } else { a[i] >> c[i] };
        i += 1;
    }
    pack(r)
}

pub fn mm256_sll_epi64(a: __m256i, count: __m128i) -> __m256i {
    let a = lanes(a);
    let c: [u64; 2] = unsafe { core::mem::transmute(count) };
    let mut r = [0u64; 4];
    let mut i = 0;
    while i < 4 {
        r[i] = if c[0] > 63 { 0 } else { a[i] << c[0] };
        i += 1;
    }
    pack(r)
}

pub fn mm256_srl_epi64(a: __m256i, count: __m128i) -> __m256i {
    let a = lanes(a);
    let c: [u64; 2] = unsafe { core::mem::transmute(count) };
    let mut r = [0u64; 4];
    let mut i = 0;
    while i < 4 {
        r[i] = if c[0] > 63 { 0 } else { a[i] >> c[0] };
        i += 1;
    }
    pack(r)
}

pub fn mm256_add_epi64(a: __m256i, b: __m256i) -> __m256i {
    let (a, b) = (lanes(a), lanes(b));
    pack([a[0].wrapping_add(b[0]), a[1].wrapping_add(b[1]), a[2].wrapping_add(b[2]), a[3].wrapping_add(b[3])])
}

pub fn mm256_sub_epi64(a: __m256i, b: __m256i) -> __m256i {
    let (a, b) = (lanes(a), lanes(b));
    pack([a[0].wrapping_sub(b[0]), a[1].wrapping_sub(b[1]), a[2].wrapping_sub(b[2]), a[3].wrapping_sub(b[3])])
}

pub fn mm256_cmpgt_epi64(a: __m256i, b: __m256i) -> __m256i {
    let (a, b) = (lanes(a), lanes(b));
    let mut r = [0u64; 4];
    let mut i = 0;
    while i < 4 {
        r[i] = if (a[i] as i64) > (b[i] as i64) { u64::MAX } else { 0 };
        i += 1;
    }
    pack(r)
}

/// `_mm256_mul_epi32`: signed 32x32 -> 64 product of the low halves of each 64-bit lane
pub fn mm256_mul_epi32(a: __m256i, b: __m256i) -> __m256i {
    let (a, b) = (lanes(a), lanes(b));
    let mut r = [0u64; 4];
    let mut i = 0;
    while i < 4 {
        r[i] = ((a[i] as u32 as i32 as i64).wrapping_mul(b[i] as u32 as i32 as i64)) as u64;
        i += 1;
    }
    pack(r)
}

#[cfg(test)]
mod tests {
    use super::*;
    use core::arch::x86_64::*;
    fn rng(s: &mut u64) -> u64 {
        *s ^= *s << 13;
        *s ^= *s >> 7;
        *s ^= *s << 17;
        *s
    }
    #[test]
    fn models_match_hardware() {
        if !is_x86_feature_detected!("avx2") {
            eprintln!("no avx2: skipped");
            return;
        }
        let mut s = 0x9E3779B97F4A7C15u64;
        for it in 0..65536 {
            let a = pack([rng(&mut s), rng(&mut s), rng(&mut s), rng(&mut s)]);
            let b = pack([rng(&mut s), rng(&mut s), rng(&mut s), rng(&mut s)]);
            let small = |x: u64| if it % 3 == 0 { x } else { x % 70 };
            let c = pack([small(rng(&mut s)), small(rng(&mut s)), small(rng(&mut s)), small(rng(&mut s))]);
            let cx: __m128i = unsafe { core::mem::transmute([small(rng(&mut s)), rng(&mut s)]) };
            unsafe {
                assert_eq!(lanes(_mm256_sllv_epi64(a, c)), lanes(mm256_sllv_epi64(a, c)));
                assert_eq!(lanes(_mm256_srlv_epi64(a, c)), lanes(mm256_srlv_epi64(a, c)));
                assert_eq!(lanes(_mm256_sll_epi64(a, cx)), lanes(mm256_sll_epi64(a, cx)));
                assert_eq!(lanes(_mm256_srl_epi64(a, cx)), lanes(mm256_srl_epi64(a, cx)));
                assert_eq!(lanes(_mm256_add_epi64(a, b)), lanes(mm256_add_epi64(a, b)));
                assert_eq!(lanes(_mm256_sub_epi64(a, b)), lanes(mm256_sub_epi64(a, b)));
                assert_eq!(lanes(_mm256_cmpgt_epi64(a, b)), lanes(mm256_cmpgt_epi64(a, b)));
                assert_eq!(lanes(_mm256_mul_epi32(a, b)), lanes(mm256_mul_epi32(a, b)));
            }
        }
    }
}

/// `_mm256_i64gather_epi64::<SCALE>(base, offsets)`: lane i = *(base + offsets[i] * SCALE bytes)
pub unsafe fn mm256_i64gather_epi64<const SCALE: i32>(slice: *const i64, offsets: __m256i) -> __m256i {
    let o = lanes(offsets);
    let base = slice as *const u8;
    let mut r = [0u64; 4];
    let mut i = 0;
    while i < 4 {
        let p = base.wrapping_offset((o[i] as i64 as isize).wrapping_mul(SCALE as isize)) as *const u64;
        r[i] = unsafe { core::ptr::read_unaligned(p) };
        i += 1;
    }
    pack(r)
}

//! C10-A1: every integer AVX2 kernel of `poulpy-cpu-avx/src/znx_avx/*.rs` is bit-identical to
//! its reference twin, for slice lengths LEN in 1..=9 (0,1,2 SIMD blocks x tails 0..3).
//! Values: full i64 range for the wrapping kernels (with "the mathematical result fits" assumed
//! for the reference, which uses checked +/-), headroom domain |x|<2^61 for normalisation
//! kernels; base2k concrete, intra-limb shift `lsh` symbolic.
use crate::znx_avx::*;
use poulpy_cpu_ref::reference::znx::*;

fn arr<const LEN: usize>(mag: Option<u32>) -> [i64; LEN] {
    let a = vsym::arr_i64::<LEN>();
    if let Some(bits) = mag {
        let m = 1i64 << bits;
        let mut i = 0;
        while i < LEN {
            vsym::assume(a[i] > -m && a[i] < m);
            i += 1;
        }
    }
    a
}

fn same<const LEN: usize>(x: &[i64; LEN], y: &[i64; LEN], what: &'static str) {
    let mut i = 0;
    while i < LEN {
        assert!(x[i] == y[i], "AVX kernel differs from the reference kernel");
        i += 1;
    }
    let _ = what;
}

/// OP: 0 add 1 add_assign 2 sub 3 sub_assign 4 sub_negate_assign 5 negate 6 negate_assign
pub fn linear<const LEN: usize, const OP: usize>() {
    let a = arr::<LEN>(Some(62));
    let b = arr::<LEN>(Some(62));
    let r0 = arr::<LEN>(Some(62));
    let (mut r1, mut r2) = (r0, r0);
    unsafe {
        match OP {
            0 => { znx_add_avx(&mut r1, &a, &b); znx_add_ref(&mut r2, &a, &b) }
            1 => { znx_add_assign_avx(&mut r1, &a); znx_add_assign_ref(&mut r2, &a) }
            2 => { znx_sub_avx(&mut r1, &a, &b); znx_sub_ref(&mut r2, &a, &b) }
            3 => { znx_sub_assign_avx(&mut r1, &a); znx_sub_assign_ref(&mut r2, &a) }
            4 => { znx_sub_negate_assign_avx(&mut r1, &a); znx_sub_negate_assign_ref(&mut r2, &a) }
            5 => { znx_negate_avx(&mut r1, &a); znx_negate_ref(&mut r2, &a) }
            _ => { znx_negate_assign_avx(&mut r1); znx_negate_assign_ref(&mut r2) }
        }
    }
    same(&r1, &r2, "linear");
    vsym::reached();
}

/// OP: 0 mul_power_of_two 1 _assign 2 mul_add_power_of_two ; k concrete
pub fn mulpow2<const LEN: usize, const OP: usize>(k: i64) {
    let a = arr::<LEN>(Some(61));
    let r0 = arr::<LEN>(Some(61));
    if k > 0 {
        let m = 1i64 << (61 - k);
        let mut i = 0;
        while i < LEN {
            vsym::assume(a[i] > -m && a[i] < m && r0[i] > -m && r0[i] < m);
            i += 1;
        }
    }
    let (mut r1, mut r2) = (r0, r0);
    unsafe {
        match OP {
            0 => { znx_mul_power_of_two_avx(k, &mut r1, &a); znx_mul_power_of_two_ref(k, &mut r2, &a) }
            1 => { znx_mul_power_of_two_assign_avx(k, &mut r1); znx_mul_power_of_two_assign_ref(k, &mut r2) }
            _ => { znx_mul_add_power_of_two_avx(k, &mut r1, &a); znx_mul_add_power_of_two_ref(k, &mut r2, &a) }
        }
    }
    same(&r1, &r2, "mulpow2");
    vsym::reached();
}

/// automorphism: N = LEN must be a power of two; Galois element symbolic (odd)
pub fn automorphism<const LEN: usize>() {
    let g = vsym::i64();
    vsym::assume(g > -(1 << 20) && g < (1 << 20) && (g & 1) == 1);
    let a = arr::<LEN>(Some(62));
    let r0 = arr::<LEN>(None);
    let (mut r1, mut r2) = (r0, r0);
    unsafe { znx_automorphism_avx(g, &mut r1, &a) };
    znx_automorphism_ref(g, &mut r2, &a);
    same(&r1, &r2, "automorphism");
    vsym::reached();
}

pub fn switch_ring<const NIN: usize, const NOUT: usize>() {
    let a = arr::<NIN>(None);
    let r0 = arr::<NOUT>(None);
    let (mut r1, mut r2) = (r0, r0);
    unsafe { znx_switch_ring_avx(&mut r1, &a) };
    znx_switch_ring_ref(&mut r2, &a);
    same(&r1, &r2, "switch_ring");
    vsym::reached();
}

fn sym_lsh(b: usize) -> usize {
    let lsh = vsym::usize();
    vsym::assume(lsh < b);
    lsh
}

/// Normalisation kernels.  K selects the kernel; B = base2k concrete, lsh symbolic.
/// 0 first_carry_only 1 first_assign 2 first<true> 3 first<false> 4 middle_carry_only
/// 5 middle_assign 6 middle<true> 7 middle<false> 8 middle_sub 9 final_assign 10 final<true>
/// 11 final<false> 12 final_sub 13 extract_digit_addmul 14 normalize_digit
pub fn norm<const LEN: usize, const B: usize, const K: usize>() {
    let lsh = if K == 14 { 0 } else if K == 13 { let l = vsym::usize(); vsym::assume(l <= 62 - B); l } else { sym_lsh(B) };
    let a = arr::<LEN>(Some(61));
    let x0 = arr::<LEN>(Some(61));
    let c0 = arr::<LEN>(Some(61));
    let (mut x1, mut x2) = (x0, x0);
    let (mut c1, mut c2) = (c0, c0);
    unsafe {
        match K {
            0 => { znx_normalize_first_step_carry_only_avx(B, lsh, &a, &mut c1); znx_normalize_first_step_carry_only_ref(B, lsh, &a, &mut c2) }
            1 => { znx_normalize_first_step_assign_avx(B, lsh, &mut x1, &mut c1); znx_normalize_first_step_assign_ref(B, lsh, &mut x2, &mut c2) }
            2 => { znx_normalize_first_step_avx::<true>(B, lsh, &mut x1, &a, &mut c1); znx_normalize_first_step_ref::<true>(B, lsh, &mut x2, &a, &mut c2) }
            3 => { znx_normalize_first_step_avx::<false>(B, lsh, &mut x1, &a, &mut c1); znx_normalize_first_step_ref::<false>(B, lsh, &mut x2, &a, &mut c2) }
            4 => { znx_normalize_middle_step_carry_only_avx(B, lsh, &a, &mut c1); znx_normalize_middle_step_carry_only_ref(B, lsh, &a, &mut c2) }
            5 => { znx_normalize_middle_step_assign_avx(B, lsh, &mut x1, &mut c1); znx_normalize_middle_step_assign_ref(B, lsh, &mut x2, &mut c2) }
            6 => { znx_normalize_middle_step_avx::<true>(B, lsh, &mut x1, &a, &mut c1); znx_normalize_middle_step_ref::<true>(B, lsh, &mut x2, &a, &mut c2) }
            7 => { znx_normalize_middle_step_avx::<false>(B, lsh, &mut x1, &a, &mut c1); znx_normalize_middle_step_ref::<false>(B, lsh, &mut x2, &a, &mut c2) }
            8 => { znx_normalize_middle_step_sub_avx(B, lsh, &mut x1, &a, &mut c1); znx_normalize_middle_step_sub_ref(B, lsh, &mut x2, &a, &mut c2) }
            9 => { znx_normalize_final_step_assign_avx(B, lsh, &mut x1, &mut c1); znx_normalize_final_step_assign_ref(B, lsh, &mut x2, &mut c2) }
            10 => { znx_normalize_final_step_avx::<true>(B, lsh, &mut x1, &a, &mut c1); znx_normalize_final_step_ref::<true>(B, lsh, &mut x2, &a, &mut c2) }
            11 => { znx_normalize_final_step_avx::<false>(B, lsh, &mut x1, &a, &mut c1); znx_normalize_final_step_ref::<false>(B, lsh, &mut x2, &a, &mut c2) }
            12 => { znx_normalize_final_step_sub_avx(B, lsh, &mut x1, &a, &mut c1); znx_normalize_final_step_sub_ref(B, lsh, &mut x2, &a, &mut c2) }
            13 => { znx_extract_digit_addmul_avx(B, lsh, &mut x1, &mut c1); znx_extract_digit_addmul_ref(B, lsh, &mut x2, &mut c2) }
            _ => { znx_normalize_digit_avx(B, &mut x1, &mut c1); znx_normalize_digit_ref(B, &mut x2, &mut c2) }
        }
    }
    same(&x1, &x2, "norm x");
    same(&c1, &c2, "norm carry");
    vsym::reached();
}

/// FULL-RANGE variant at the i64 boundary (where `x - digit` wraps): the carry-only first step
/// with `a` over the whole i64 range; the reference uses wrapping_sub there, so both sides are
/// defined for every input.
pub fn norm_full<const LEN: usize, const B: usize>() {
    let lsh = sym_lsh(B);
    let a = arr::<LEN>(None);
    let c0 = arr::<LEN>(None);
    let (mut c1, mut c2) = (c0, c0);
    unsafe { znx_normalize_first_step_carry_only_avx(B, lsh, &a, &mut c1) };
    znx_normalize_first_step_carry_only_ref(B, lsh, &a, &mut c2);
    same(&c1, &c2, "norm_full carry");
    vsym::reached();
}

/// Integer convolution-by-constant kernels of `poulpy-cpu-avx/src/fft64/convolution.rs` vs the
/// reference `i64_convolution_by_const_{1coeff,2coeffs}_ref` (documented domain: inputs fit i32).
/// a: AS blocks of 8 lanes (i32 range, symbolic), b: BS real scalars (|b| < 2^15, symbolic),
/// output limb index k concrete.
pub fn conv_by_const<const AS: usize, const BS: usize, const LA: usize, const TWO: bool>(k: usize) {
    use crate::fft64_conv::*;
    use poulpy_cpu_ref::reference::fft64::convolution::{i64_convolution_by_const_1coeff_ref, i64_convolution_by_const_2coeffs_ref};
    // `a` is the middle of a larger array (8 words of slack on both sides): the AVX kernel
    // decrements its block pointer once more after the last term (`a_ptr.sub(8)`), which for a
    // slice that starts its allocation forms an out-of-bounds pointer (never dereferenced);
    // that is a memory-safety question (C17), listed there, not a bit-identity one.
    let abuf = vsym::arr_i64::<LA>();
    let a = &abuf[8..LA - 8];
    let b = vsym::arr_i64::<BS>();
    let mut i = 0;
    while i < LA - 16 {
        vsym::assume(a[i] >= i32::MIN as i64 && a[i] <= i32::MAX as i64);
        i += 1;
    }
    let mut i = 0;
    while i < BS {
        vsym::assume(b[i] > -(1 << 15) && b[i] < (1 << 15));
        i += 1;
    }
    if TWO {
        let d0 = vsym::arr_i64::<16>();
        let (mut d1, mut d2) = (d0, d0);
        unsafe { i64_convolution_by_real_const_2coeffs_avx(k, &mut d1, a, AS, &b) };
        i64_convolution_by_const_2coeffs_ref(k, &mut d2, a, AS, &b);
        same(&d1, &d2, "conv 2coeffs");
    } else {
        let d0 = vsym::arr_i64::<8>();
        let (mut d1, mut d2) = (d0, d0);
        unsafe { i64_convolution_by_const_1coeff_avx(k, &mut d1, a, AS, &b) };
        i64_convolution_by_const_1coeff_ref(k, &mut d2, a, AS, &b);
        same(&d1, &d2, "conv 1coeff");
    }
    vsym::reached();
}

/// block movers: extract / save one 8-lane block per row; n = 8 or 16, rows concrete.
/// The slices handed to the kernels are prefixes of arrays with NN words of slack: the AVX movers
/// advance their row pointer once more after the last row (`ptr.add(step)`), which leaves a
/// slice that is exactly its allocation; that pointer-formation question is memory safety (C17),
/// not bit-identity, and is listed there.
pub fn blk_movers<const NN: usize, const ROWS: usize, const LS: usize, const LD: usize, const SAVE: bool>(blk: usize, offset: usize) {
    use crate::fft64_conv::*;
    use poulpy_cpu_ref::reference::fft64::convolution::{i64_extract_1blk_contiguous_ref, i64_save_1blk_contiguous_ref};
    let src = vsym::arr_i64::<LS>();
    let d0 = vsym::arr_i64::<LD>();
    let (mut d1, mut d2) = (d0, d0);
    let (sl, dl) = (LS - NN, LD - NN);
    if SAVE {
        unsafe { i64_save_1blk_contiguous_avx(NN, offset, ROWS, blk, &mut d1[..dl], &src[..sl]) };
        i64_save_1blk_contiguous_ref(NN, offset, ROWS, blk, &mut d2[..dl], &src[..sl]);
    } else {
        unsafe { i64_extract_1blk_contiguous_avx(NN, offset, ROWS, blk, &mut d1[..dl], &src[..sl]) };
        i64_extract_1blk_contiguous_ref(NN, offset, ROWS, blk, &mut d2[..dl], &src[..sl]);
    }
    same(&d1, &d2, "blk mover");
    vsym::reached();
}

/// C17-A3: the same integer convolution / block-mover kernels called on slices that ARE their
/// allocation (no slack): Kani checks every pointer computed by the kernels.
pub fn conv_by_const_exact<const AS: usize, const BS: usize, const LA: usize>(k: usize) {
    use crate::fft64_conv::*;
    let a = vsym::arr_i64::<LA>();
    let b = vsym::arr_i64::<BS>();
    let mut i = 0;
    while i < LA {
        vsym::assume(a[i] >= -8 && a[i] <= 8);
        i += 1;
    }
    let mut i = 0;
    while i < BS {
        vsym::assume(b[i] >= -8 && b[i] <= 8);
        i += 1;
    }
    let mut d = [0i64; 8];
    unsafe { i64_convolution_by_const_1coeff_avx(k, &mut d, &a, AS, &b) };
    vsym::reached();
}

pub fn blk_movers_exact<const NN: usize, const ROWS: usize, const LS: usize, const LD: usize, const SAVE: bool>(blk: usize) {
    use crate::fft64_conv::*;
    let src = vsym::arr_i64::<LS>();
    let mut d = vsym::arr_i64::<LD>();
    if SAVE {
        unsafe { i64_save_1blk_contiguous_avx(NN, 0, ROWS, blk, &mut d, &src) };
    } else {
        unsafe { i64_extract_1blk_contiguous_avx(NN, 0, ROWS, blk, &mut d, &src) };
    }
    vsym::reached();
}

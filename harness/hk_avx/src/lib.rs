//! C10: the *real* AVX2 kernel sources of poulpy-cpu-avx, compiled into this crate with
//! `#[path]` (the crate itself cannot be built under Kani: it needs `cfg(target_feature)`),
//! compared bit-for-bit with their reference twins.
#![allow(clippy::all)]
#![allow(unused)]
#![allow(unsafe_op_in_unsafe_fn)]

pub mod znx_avx {
    #[path = "/repo/poulpy-cpu-avx/src/znx_avx/add.rs"]
    mod add;
    #[path = "/repo/poulpy-cpu-avx/src/znx_avx/automorphism.rs"]
    mod automorphism;
    #[path = "/repo/poulpy-cpu-avx/src/znx_avx/mul.rs"]
    mod mul;
    #[path = "/repo/poulpy-cpu-avx/src/znx_avx/neg.rs"]
    mod neg;
    #[path = "/repo/poulpy-cpu-avx/src/znx_avx/normalization.rs"]
    mod normalization;
    #[path = "/repo/poulpy-cpu-avx/src/znx_avx/sub.rs"]
    mod sub;
    #[path = "/repo/poulpy-cpu-avx/src/znx_avx/switch_ring.rs"]
    mod switch_ring;
    pub use add::*;
    pub use automorphism::*;
    pub use mul::*;
    pub use neg::*;
    pub use normalization::*;
    pub use sub::*;
    pub use switch_ring::*;
}

pub mod fft64_conv {
    #[path = "/repo/poulpy-cpu-avx/src/fft64/convolution.rs"]
    mod convolution;
    pub use convolution::*;
}

pub mod stubs;
pub mod c10;
pub mod generated;

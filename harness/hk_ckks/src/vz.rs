//! Harness-side buffers and frame assertions (C11 style): every writable buffer is
//! fully symbolic before the call; after the call the selected column must equal the
//! specification and every other word must be unchanged.
use poulpy_hal::layouts::{ScalarZnx, VecZnx};

#[repr(C, align(64))]
#[derive(Clone, Copy)]
pub struct Buf<const L: usize>(pub [i64; L]);

impl<const L: usize> Buf<L> {
    /// Fully symbolic contents (one nondeterministic object).
    pub fn sym() -> Self {
        Buf(vsym::arr_i64::<L>())
    }
    /// Symbolic contents with |x| < 2^bits (loop of L assumptions).
    pub fn sym_mag(bits: u32) -> Self {
        let b = Buf(vsym::arr_i64::<L>());
        let m = 1i64 << bits;
        let mut i = 0;
        while i < L {
            vsym::assume(b.0[i] > -m && b.0[i] < m);
            i += 1;
        }
        b
    }
    /// Symbolic contents in [lo, hi] inclusive.
    pub fn sym_range(lo: i64, hi: i64) -> Self {
        let b = Buf(vsym::arr_i64::<L>());
        let mut i = 0;
        while i < L {
            vsym::assume(b.0[i] >= lo && b.0[i] <= hi);
            i += 1;
        }
        b
    }
    pub fn bytes_mut(&mut self) -> &mut [u8] {
        unsafe { core::slice::from_raw_parts_mut(self.0.as_mut_ptr() as *mut u8, L * 8) }
    }
    pub fn bytes(&self) -> &[u8] {
        unsafe { core::slice::from_raw_parts(self.0.as_ptr() as *const u8, L * 8) }
    }
    /// View as a VecZnx with `size` active limbs out of `max_size` (L == n*cols*max_size).
    pub fn vec_mut(&mut self, n: usize, cols: usize, size: usize, max_size: usize) -> VecZnx<&mut [u8]> {
        assert!(L == n * cols * max_size);
        VecZnx { data: self.bytes_mut(), n, cols, size, max_size }
    }
    pub fn vec(&self, n: usize, cols: usize, size: usize, max_size: usize) -> VecZnx<&[u8]> {
        assert!(L == n * cols * max_size);
        VecZnx { data: self.bytes(), n, cols, size, max_size }
    }
    pub fn scalar(&self, n: usize, cols: usize) -> ScalarZnx<&[u8]> {
        assert!(L == n * cols);
        ScalarZnx { data: self.bytes(), n, cols }
    }
    /// coefficient i of (col, limb) in the limb-major, column-minor layout n*(limb*cols+col)
    #[inline(always)]
    pub fn at(&self, n: usize, cols: usize, col: usize, limb: usize, i: usize) -> i64 {
        self.0[n * (limb * cols + col) + i]
    }
}

/// Frame assertion: every word of `after` outside (col == res_col && limb < size) equals `before`.
pub fn assert_frame<const L: usize>(before: &Buf<L>, after: &Buf<L>, n: usize, cols: usize, res_col: usize, size: usize) {
    let mut idx = 0;
    while idx < L {
        let poly = idx / n;
        let limb = poly / cols;
        let col = poly % cols;
        if !(col == res_col && limb < size) {
            assert!(after.0[idx] == before.0[idx], "stray write outside the selected output column");
        }
        idx += 1;
    }
}

/// limbs of (col) as a small array, most significant first; M >= size
pub fn column<const L: usize, const M: usize>(b: &Buf<L>, cols: usize, col: usize, size: usize) -> [i64; M] {
    let mut out = [0i64; M];
    let mut j = 0;
    while j < size {
        out[j] = b.at(1, cols, col, j, 0);
        j += 1;
    }
    out
}

/// Frame + value assertion: the selected column equals `spec(limb, i)` on its `size` active
/// limbs, everything else is unchanged.
pub fn assert_col<const L: usize>(
    before: &Buf<L>,
    after: &Buf<L>,
    n: usize,
    cols: usize,
    res_col: usize,
    size: usize,
    spec: impl Fn(usize, usize) -> i64,
) {
    assert_frame(before, after, n, cols, res_col, size);
    let mut j = 0;
    while j < size {
        let mut i = 0;
        while i < n {
            assert!(after.at(n, cols, res_col, j, i) == spec(j, i), "selected column differs from the ring-level specification");
            i += 1;
        }
        j += 1;
    }
}

/// coefficient i of X^p * a in Z[X]/(X^n+1) (n a power of two; p any integer), `a(i)` the input
pub fn rot_coeff(n: usize, p: i64, i: usize, a: impl Fn(usize) -> i64) -> i64 {
    // (X^p a)_i = sign * a_{(i - p) mod 2n folded}
    let two_n = 2 * n as i64;
    let src = (i as i64 - p).rem_euclid(two_n) as usize; // exponent e with X^e -> X^i, i.e. e + p ≡ i or i + n
    if src < n { a(src) } else { a(src - n).wrapping_neg() }
}

/// coefficient i of a(X^g) in Z[X]/(X^n+1), g odd: sum over e with e*g ≡ i (mod 2n) (+) or ≡ i+n (-)
pub fn auto_coeff(n: usize, g: i64, i: usize, a: impl Fn(usize) -> i64) -> i64 {
    let two_n = 2 * n as i64;
    let gm = g.rem_euclid(two_n);
    let mut e = 0usize;
    let mut acc: i64 = 0;
    while e < n {
        let t = ((e as i64) * gm).rem_euclid(two_n) as usize;
        if t == i {
            acc = a(e);
        } else if t == i + n {
            acc = a(e).wrapping_neg();
        }
        e += 1;
    }
    acc
}

/// Base address of the harness' scratch arena (64-byte aligned: `Buf` is `repr(align(64))`).
pub static mut ARENA_BASE: *const u8 = core::ptr::null();

pub fn set_arena(base: *const u8) {
    assert!(base as usize % 64 == 0, "harness arena not 64-byte aligned");
    unsafe { ARENA_BASE = base };
}

/// Stand-in for the private `poulpy_cpu_ref::hal_defaults::scratch::take_slice_aligned`: identical
/// body, except that the padding to the next 64-byte boundary is computed from the *offset of the
/// window inside the (64-byte aligned) harness arena* instead of from the integer value of the
/// pointer.  Same function on the harness' arenas, but it keeps every scratch offset a constant for
/// the symbolic engine (the integer address of an object is a free variable in CBMC, which turns
/// every scratch access into a symbolic-index array access).  The real function is decided on its
/// own by the C12 `scratch.take_slice*` harnesses.
pub fn take_slice_aligned_stub(data: &mut [u8], take_len: usize) -> (&mut [u8], &mut [u8]) {
    let ptr: *mut u8 = data.as_mut_ptr();
    let self_len: usize = data.len();
    let off = unsafe { (ptr as *const u8).offset_from(ARENA_BASE) } as usize;
    let aligned_offset: usize = (64 - off % 64) % 64;
    let aligned_len: usize = self_len.saturating_sub(aligned_offset);
    if let Some(rem_len) = aligned_len.checked_sub(take_len) {
        unsafe {
            let rem_ptr: *mut u8 = ptr.add(aligned_offset).add(take_len);
            let rem_slice: &mut [u8] = &mut *std::ptr::slice_from_raw_parts_mut(rem_ptr, rem_len);
            let take_slice: &mut [u8] = &mut *std::ptr::slice_from_raw_parts_mut(ptr.add(aligned_offset), take_len);
            (take_slice, rem_slice)
        }
    } else {
        panic!("Attempted to take from scratch with too few aligned bytes left");
    }
}

//! C16: CKKS metadata algebra, error paths and the linear (product-free) operations, through the
//! public traits of poulpy-ckks on `Module<FFT64Ref>::new_marker(1)`.
//! Operand metadata (log_delta, log_budget) and destination capacity are concrete per instance
//! (differences of log_budget become shift amounts); limb data is symbolic; `bits` is enumerated
//! over small values and the top of the usize range.
use crate::spec::*;
use crate::vz::*;
use poulpy_ckks::layouts::CKKSCiphertext;
use poulpy_ckks::leveled::{CKKSAddOps, CKKSNegOps, CKKSPow2Ops, CKKSSubOps};
use poulpy_ckks::verif_hooks as h;
use poulpy_ckks::{CKKSInfos, CKKSMeta};
use poulpy_core::layouts::{Base2K, Degree, GLWEInfos, LWEInfos, TorusPrecision};
use poulpy_cpu_ref::FFT64Ref;
use poulpy_hal::api::ScratchFromBytes;
use poulpy_hal::layouts::{Module, Scratch, ZnxInfos, ZnxView, ZnxViewMut};

pub const B: usize = 17;

pub fn fmt_stub(_args: core::fmt::Arguments<'_>) -> String {
    String::new()
}
pub fn backtrace_stub() -> std::backtrace::Backtrace {
    std::backtrace::Backtrace::disabled()
}

/// pure metadata helpers on (almost) arbitrary values: budgets/deltas of consistent ciphertexts
/// are below 2^40; `required_bits` is arbitrary.
pub fn meta_helpers() {
    let (lb1, lb2, ld1, ld2) = (vsym::usize(), vsym::usize(), vsym::usize(), vsym::usize());
    vsym::assume(lb1 < (1 << 40) && lb2 < (1 << 40) && ld1 < (1 << 40) && ld2 < (1 << 40));
    let req = vsym::usize();
    let r = h::checked_log_budget_sub("t", lb1, req);
    match &r {
        Ok(v) => assert!(req <= lb1 && *v == lb1 - req, "checked_log_budget_sub: Ok with a wrong value"),
        Err(_) => assert!(req > lb1, "checked_log_budget_sub: Err although the budget suffices"),
    }
    core::mem::forget(r);
    let r = h::checked_mul_ct_log_budget("t", lb1, lb2, ld1, ld2);
    let (mb, md) = (lb1.min(lb2), ld1.max(ld2));
    match &r {
        Ok(v) => assert!(md <= mb && *v == mb - md, "checked_mul_ct_log_budget: Ok with a wrong value"),
        Err(_) => assert!(md > mb, "checked_mul_ct_log_budget: Err although min(budget) >= max(delta)"),
    }
    core::mem::forget(r);
    let r = h::checked_mul_pt_log_budget("t", lb1, lb2, ld1, ld2);
    match &r {
        Ok(v) => assert!(ld2 <= lb1 && *v == lb1 - ld2, "checked_mul_pt_log_budget: Ok with a wrong value"),
        Err(_) => assert!(ld2 > lb1, "checked_mul_pt_log_budget: Err although the budget suffices"),
    }
    core::mem::forget(r);
    let maxk = vsym::usize();
    vsym::assume(maxk < (1 << 40));
    let r = h::ensure_plaintext_alignment("t", lb1, ld1, maxk);
    match &r {
        Ok(v) => assert!(lb1 + ld1 >= maxk && *v == lb1 + ld1 - maxk, "ensure_plaintext_alignment: Ok with a wrong value"),
        Err(_) => assert!(lb1 + ld1 < maxk, "ensure_plaintext_alignment: Err although alignment is possible"),
    }
    core::mem::forget(r);
    vsym::reached();
}

fn ct_sym(limbs: usize, ld: usize, lb: usize) -> CKKSCiphertext<Vec<u8>> {
    let mut c = CKKSCiphertext::alloc(Degree(1), TorusPrecision((limbs * B) as u32), Base2K(B as u32));
    {
        // CKKS ciphertexts hold normalised digits
        let src = Buf::<8>::sym_range(-(1i64 << (B - 1)), (1i64 << (B - 1)) - 1);
        let raw = c.data_mut().raw_mut();
        let n = raw.len();
        assert!(n <= 8, "GRID ERROR");
        raw.copy_from_slice(&src.0[..n]);
    }
    let r = c.set_meta_checked(CKKSMeta { log_delta: ld, log_budget: lb });
    assert!(r.is_ok(), "GRID ERROR: operand metadata does not fit its capacity");
    core::mem::forget(r);
    c
}

fn col_val(c: &CKKSCiphertext<Vec<u8>>, col: usize) -> (W256, usize) {
    let size = c.data().size();
    let mut l = [0i64; 4];
    let mut j = 0;
    while j < size {
        l[j] = c.data().at(col, j)[0];
        j += 1;
    }
    (horner_w256(&l[..size], B), size * B)
}

/// real value * 2^F of column `col`: torus value * 2^(log_budget) * 2^F with F >= bits - log_budget
fn scaled(c: &CKKSCiphertext<Vec<u8>>, col: usize, f: usize) -> W256 {
    let (v, bits) = col_val(c, col);
    let frac = bits - c.log_budget();
    v.shl((f - frac) as u32)
}

/// OP: 0 add_into 1 sub_into.  a: (LA limbs, ald, alb), b: (LB limbs, bld, blb), dst: LD limbs.
pub fn add_sub<const OP: usize>(la: usize, ald: usize, alb: usize, lb_: usize, bld: usize, blb: usize, ldst: usize) {
    let module: Module<FFT64Ref> = Module::<FFT64Ref>::new_marker(1);
    let a = ct_sym(la, ald, alb);
    let b = ct_sym(lb_, bld, blb);
    let mut dst = ct_sym(ldst, 0, 0);
    let bytes = module.ckks_add_tmp_bytes().max(module.ckks_sub_tmp_bytes());
    let mut arena = Buf::<16>::sym();
    assert!(bytes <= 128, "GRID ERROR: arena");
    set_arena(arena.bytes().as_ptr());
    let r = {
        let scratch: &mut Scratch<FFT64Ref> = Scratch::<FFT64Ref>::from_bytes(&mut arena.bytes_mut()[..bytes]);
        if OP == 0 { module.ckks_add_into(&mut dst, &a, &b, scratch) } else { module.ckks_sub_into(&mut dst, &a, &b, scratch) }
    };
    let eff = (ald + alb).min(bld + blb);
    let offset = eff.saturating_sub(ldst * B);
    let min_lb = alb.min(blb);
    if offset > min_lb {
        assert!(r.is_err(), "add/sub returned Ok although the budget cannot absorb the destination offset");
    } else {
        assert!(r.is_ok(), "add/sub failed although the destination can hold the result");
        assert!(dst.log_delta() == ald.min(bld) && dst.log_budget() == min_lb - offset, "add/sub: result metadata differs from the documented algebra");
        assert!(dst.effective_k() <= dst.max_k().as_usize(), "add/sub: log_delta + log_budget exceeds the stored precision");
        // values: real(dst) = real(a) +- real(b), each truncated operand costs one unit of dst's last limb
        let fd = ldst * B - dst.log_budget();
        let f = (la * B - alb).max(lb_ * B - blb).max(fd);
        let mut col = 0;
        while col < 2 {
            let (va, vb, vd) = (scaled(&a, col, f), scaled(&b, col, f), scaled(&dst, col, f));
            let want = if OP == 0 { va.add(vb) } else { va.sub(vb) };
            let e = vd.sub(want).center((f + dst.log_budget()) as u32);
            // tolerance: 2 units of dst's last limb (2^(f - fd) each)
            assert!(e.abs_le_pow2((f - fd + 1) as u32), "add/sub: value of the result is not a +- b at the result's precision");
            col += 1;
        }
    }
    core::mem::forget(r);
    vsym::reached();
}

/// OP: 0 mul_pow2_into 1 div_pow2_into 2 neg_into 3 div_pow2_assign ; bits concrete (incl. usize::MAX)
pub fn unary<const OP: usize>(ls: usize, sld: usize, slb: usize, ldst: usize, bits: usize) {
    let module: Module<FFT64Ref> = Module::<FFT64Ref>::new_marker(1);
    let src = ct_sym(ls, sld, slb);
    let mut dst = if OP == 3 { ct_sym(ldst, sld, slb) } else { ct_sym(ldst, 0, 0) };
    let before_meta = dst.meta();
    let bytes = module.ckks_mul_pow2_tmp_bytes().max(module.ckks_neg_tmp_bytes());
    let mut arena = Buf::<16>::sym();
    assert!(bytes <= 128, "GRID ERROR: arena");
    set_arena(arena.bytes().as_ptr());
    let r = {
        let scratch: &mut Scratch<FFT64Ref> = Scratch::<FFT64Ref>::from_bytes(&mut arena.bytes_mut()[..bytes]);
        match OP {
            0 => module.ckks_mul_pow2_into(&mut dst, &src, bits, scratch),
            1 => module.ckks_div_pow2_into(&mut dst, &src, bits, scratch),
            2 => module.ckks_neg_into(&mut dst, &src, scratch),
            _ => module.ckks_div_pow2_assign(&mut dst, bits),
        }
    };
    let offset = (sld + slb).saturating_sub(ldst * B);
    let need: Option<usize> = match OP {
        // a left shift by bits + offset that does not fit a usize is refused
        0 => bits.checked_add(offset).map(|_| offset),
        2 => Some(offset),
        1 => bits.checked_add(offset),
        _ => Some(bits),
    };
    let fits = matches!(need, Some(x) if x <= slb);
    if !fits {
        assert!(r.is_err(), "unary op returned Ok although the remaining budget is insufficient");
    } else {
        assert!(r.is_ok(), "unary op failed although the budget suffices");
        let nb = slb - need.unwrap();
        let nd = if OP == 1 { sld + bits } else { sld };
        if OP != 3 || true {
            assert!(dst.log_budget() == nb, "unary op: log_budget differs from the documented algebra");
        }
        if OP == 1 {
            assert!(dst.log_delta() == nd, "div_pow2: log_delta not increased by bits");
        }
        assert!(dst.effective_k() <= dst.max_k().as_usize(), "unary op: log_delta + log_budget exceeds the stored precision");
    }
    if r.is_ok() {
        assert!(dst.effective_k() <= dst.max_k().as_usize(), "Ok with inconsistent metadata");
    }
    core::mem::forget(r);
    let _ = before_meta;
    vsym::reached();
}

#![allow(clippy::all)]
#![allow(unused)]
pub mod spec;
pub mod vz;
pub mod c16;
pub mod generated;

//! C02: noise-free GLWE operations commute with the decryption phase.
//! The real `poulpy-core` operations run on `Module<FFT64Ref>::new_marker(2)` (none touches the
//! DFT).  The phase map ct -> body + <mask, s> is Z[X]/(X^N+1)-linear in the columns of ct for
//! every secret s (reduction on paper, DESIGN §5 C02-A2), so "phase(res) = OP(phase(a), phase(b))
//! for every s" is equivalent to the COLUMN-WISE statement decided here:
//!   column i of res  ==  OP(column i of a, column i of b)   for every i <= rank(res),
//! where a column that an operand does not have (plaintext = rank 0 mixed with a ciphertext)
//! counts as zero, limbs an operand does not have count as zero, and result limbs beyond the
//! operands are zero.  (A phase-level assertion with a concrete secret was tried first: the
//! re-association of 64-bit adder chains it needs makes single instances run > 15 min.)
//!  * linear family: exact equality per column/limb/coefficient;
//!  * shift / normalise family: per column, the C08 torus relation (one unit of the last limb).
use crate::spec::*;
use crate::vz::*;
use poulpy_core::layouts::{Base2K, Degree, GLWEInfos, LWEInfos, Rank, TorusPrecision, GLWE};
use poulpy_core::{GLWEAdd, GLWECopy, GLWEMulXpMinusOne, GLWENegate, GLWENormalize, GLWERotate, GLWEShift, GLWESub};
use poulpy_cpu_ref::FFT64Ref;
use poulpy_hal::api::ScratchFromBytes;
use poulpy_hal::layouts::{Module, Scratch, ZnxInfos, ZnxView, ZnxViewMut};

pub const N: usize = 2;
pub const DOM: u32 = 60;

/// GLWE with `size` limbs of radix 2^b and `rank`+1 columns; contents from one symbolic array
pub fn glwe_sym<const L: usize>(b: usize, size: usize, rank: usize) -> GLWE<Vec<u8>> {
    let mut g = GLWE::alloc(Degree(N as u32), Base2K(b as u32), TorusPrecision((size * b) as u32), Rank(rank as u32));
    let src = Buf::<L>::sym_mag(DOM);
    let raw = g.data_mut().raw_mut();
    assert!(raw.len() <= L, "GRID ERROR: glwe_sym buffer");
    let n = raw.len();
    raw.copy_from_slice(&src.0[..n]);
    g
}

/// coefficient i of (col, limb) or 0 when the object has no such column/limb
fn at(g: &GLWE<Vec<u8>>, col: usize, limb: usize, i: usize) -> i64 {
    if col < g.data().cols() && limb < g.data().size() { g.data().at(col, limb)[i] } else { 0 }
}

/// OP: 0 add_into 1 sub 2 add_assign 3 sub_assign 4 sub_negate_assign 5 negate 6 negate_assign
///     7 copy 8 rotate(k) 9 mul_xp_minus_one(k)
pub fn linear<const B: usize, const OP: usize>(rr: usize, ra: usize, rb: usize, sr: usize, sa: usize, sb: usize, k: i64) {
    let module: Module<FFT64Ref> = Module::<FFT64Ref>::new_marker(N as u64);
    let a = glwe_sym::<18>(B, sa, ra);
    let b = glwe_sym::<18>(B, sb, rb);
    let mut res = glwe_sym::<18>(B, sr, rr);
    let prior: Vec<i64> = res.data().raw().to_vec();
    let cols = rr + 1;
    let p = |col: usize, limb: usize, i: usize| prior[N * (limb * cols + col) + i];
    match OP {
        0 => module.glwe_add_into(&mut res, &a, &b),
        1 => module.glwe_sub(&mut res, &a, &b),
        2 => module.glwe_add_assign(&mut res, &a),
        3 => module.glwe_sub_assign(&mut res, &a),
        4 => module.glwe_sub_negate_assign(&mut res, &a),
        5 => module.glwe_negate(&mut res, &a),
        6 => module.glwe_negate_assign(&mut res),
        7 => module.glwe_copy(&mut res, &a),
        8 => module.glwe_rotate(k, &mut res, &a),
        _ => module.glwe_mul_xp_minus_one(k, &mut res, &a),
    }
    let mut c = 0;
    while c < cols {
        let mut j = 0;
        while j < sr {
            let mut i = 0;
            while i < N {
                let (x, y, r0) = (at(&a, c, j, i), at(&b, c, j, i), p(c, j, i));
                let want = match OP {
                    0 => x.wrapping_add(y),
                    1 => x.wrapping_sub(y),
                    2 => r0.wrapping_add(x),
                    3 => r0.wrapping_sub(x),
                    4 => x.wrapping_sub(r0),
                    5 => x.wrapping_neg(),
                    6 => r0.wrapping_neg(),
                    7 => x,
                    8 => rot_coeff(N, k, i, |e| at(&a, c, j, e)),
                    _ => rot_coeff(N, k, i, |e| at(&a, c, j, e)).wrapping_sub(x),
                };
                assert!(res.data().at(c, j)[i] == want, "a result column is not the operation applied to the operand columns (phase would differ)");
                i += 1;
            }
            j += 1;
        }
        c += 1;
    }
    vsym::reached();
}

/// OP: 0 lsh 1 lsh_assign 2 rsh(in place) 3 lsh_add 4 lsh_sub 5 normalize (radix B -> RB) 6 normalize_assign
pub fn shift<const B: usize, const RB: usize, const OP: usize>(rr: usize, ra: usize, sr: usize, sa: usize, k: usize) {
    let module: Module<FFT64Ref> = Module::<FFT64Ref>::new_marker(N as u64);
    let a = glwe_sym::<18>(B, sa, ra);
    let in_place = OP == 1 || OP == 2 || OP == 6;
    let rb = if OP == 5 { RB } else { B };
    let mut res = glwe_sym::<18>(rb, sr, rr);
    let prior: Vec<i64> = res.data().raw().to_vec();
    let cols = rr + 1;
    let bytes = module.glwe_shift_tmp_bytes().max(module.glwe_normalize_tmp_bytes());
    let mut arena = Buf::<16>::sym();
    assert!(bytes <= 128, "GRID ERROR: arena");
    crate::stubs::set_arena(arena.bytes().as_ptr());
    {
        let scratch: &mut Scratch<FFT64Ref> = Scratch::<FFT64Ref>::from_bytes(&mut arena.bytes_mut()[..bytes]);
        match OP {
            0 => module.glwe_lsh(&mut res, &a, k, scratch),
            1 => module.glwe_lsh_assign(&mut res, k, scratch),
            2 => module.glwe_rsh(k, &mut res, scratch),
            3 => module.glwe_lsh_add(&mut res, &a, k, scratch),
            4 => module.glwe_lsh_sub(&mut res, &a, k, scratch),
            5 => module.glwe_normalize(&mut res, &a, scratch),
            _ => module.glwe_normalize_assign(&mut res, scratch),
        }
    }
    let src_size = if in_place { sr } else { sa };
    let mut c = 0;
    while c < cols {
        let mut i = 0;
        while i < N {
            let mut pr = [0i64; 4];
            let mut pa = [0i64; 4];
            let mut p0 = [0i64; 4];
            let mut j = 0;
            while j < sr {
                pr[j] = res.data().at(c, j)[i];
                p0[j] = prior[N * (j * cols + c) + i];
                j += 1;
            }
            let mut j = 0;
            while j < src_size {
                pa[j] = if in_place { p0[j] } else { at(&a, c, j, i) };
                j += 1;
            }
            let rv = horner_w256(&pr[..sr], rb);
            let av = horner_w256(&pa[..src_size], B);
            let bv = horner_w256(&p0[..sr], rb);
            let (delta, off) = match OP {
                0 | 1 => (rv, k as i64),
                2 => (rv, -(k as i64)),
                3 => (rv.sub(bv), k as i64),
                4 => (bv.sub(rv), k as i64),
                _ => (rv, 0),
            };
            assert!(torus_rel_any_rep(delta, sr * rb, av, src_size * B, off), "a result column is not the shifted/normalised operand column within one unit of the last limb");
            i += 1;
        }
        c += 1;
    }
    vsym::reached();
}

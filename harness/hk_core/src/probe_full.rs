//! Full HAL + core backend on the substituted-kernel type `Probe` (see probe_be.rs): the
//! repository's own `hal_impl_*!` macro files, its `fft64/znx.rs` kernel bindings and
//! `poulpy_core::impl_core_default_methods!` are instantiated for `Probe`, so every layer above
//! the ten leaf kernels (FFT execute + reim arithmetic) is the repository's real code.
//!
//! At n = 2 the FFT of size m = n/2 = 1 is the identity map (a0 + i*a1 is the value of the
//! polynomial at X = i), so `Module<Probe>` computes exactly what `Module<FFT64Ref>` computes
//! wherever the f64 arithmetic of the latter is exact; only IEEE rounding is out of the model.
use crate::probe_be::Probe;
use poulpy_cpu_ref::hal_defaults::{
    FFT64ConvolutionDefaults, FFT64ModuleDefaults, FFT64SvpDefaults, FFT64VecZnxBigDefaults, FFT64VecZnxDftDefaults,
    FFT64VmpDefaults, HalScratchDefaults, HalVecZnxDefaults,
};
use poulpy_cpu_ref::reference::fft64::{
    convolution::I64Ops,
    module::{FFT64HandleFactory, FFTHandleProvider},
    reim::{ReimFFTTable, ReimIFFTTable},
    reim4::Reim4Convolution,
};
use poulpy_hal::{
    api::{ScratchTakeBasic, VecZnxDftApply, VecZnxDftZero, VmpApplyDftToDft},
    layouts::{
        Backend, CnvPVecLToMut, CnvPVecLToRef, CnvPVecRToMut, CnvPVecRToRef, Data, MatZnxToRef, Module, NoiseInfos,
        ScalarZnxToRef, Scratch, ScratchOwned, SvpPPolToMut, SvpPPolToRef, VecZnx, VecZnxBig, VecZnxBigToMut, VecZnxBigToRef,
        VecZnxDft, VecZnxDftToMut, VecZnxDftToRef, VecZnxToMut, VecZnxToRef, VmpPMat, VmpPMatToMut, VmpPMatToRef, ZnxInfos,
    },
    oep::HalImpl,
    source::Source,
};

pub struct ProbeHandle {
    table_fft: ReimFFTTable<f64>,
    table_ifft: ReimIFFTTable<f64>,
}

unsafe impl FFT64HandleFactory for ProbeHandle {
    fn create_fft64_handle(n: usize) -> Self {
        ProbeHandle { table_fft: ReimFFTTable::new(n >> 1), table_ifft: ReimIFFTTable::new(n >> 1) }
    }
}

unsafe impl FFTHandleProvider<f64> for ProbeHandle {
    fn get_fft_table(&self) -> &ReimFFTTable<f64> {
        &self.table_fft
    }
    fn get_ifft_table(&self) -> &ReimIFFTTable<f64> {
        &self.table_ifft
    }
}

impl Reim4Convolution for Probe {}
impl I64Ops for Probe {}

// the repository's Znx* kernel bindings (`impl ZnxAdd for FFT64Ref { znx_add_ref }` ...), re-targeted
mod znx_bind {
    pub use crate::probe_be::Probe as FFT64Ref;
    #[path = "/repo/poulpy-cpu-ref/src/fft64/znx.rs"]
    mod znx;
}

#[macro_use]
#[path = "/repo/poulpy-cpu-ref/src/hal_impl/scratch.rs"]
mod m_scratch;
#[macro_use]
#[path = "/repo/poulpy-cpu-ref/src/hal_impl/vec_znx.rs"]
mod m_vec_znx;
#[macro_use]
#[path = "/repo/poulpy-cpu-ref/src/hal_impl/family_common.rs"]
mod m_family_common;
#[macro_use]
#[path = "/repo/poulpy-cpu-ref/src/hal_impl/module_fft64.rs"]
mod m_module_fft64;
#[macro_use]
#[path = "/repo/poulpy-cpu-ref/src/hal_impl/vmp_fft64.rs"]
mod m_vmp_fft64;
#[macro_use]
#[path = "/repo/poulpy-cpu-ref/src/hal_impl/convolution_fft64.rs"]
mod m_convolution_fft64;
#[macro_use]
#[path = "/repo/poulpy-cpu-ref/src/hal_impl/vec_znx_big_fft64.rs"]
mod m_vec_znx_big_fft64;
#[macro_use]
#[path = "/repo/poulpy-cpu-ref/src/hal_impl/svp_fft64.rs"]
mod m_svp_fft64;
#[macro_use]
#[path = "/repo/poulpy-cpu-ref/src/hal_impl/vec_znx_dft_fft64.rs"]
mod m_vec_znx_dft_fft64;

unsafe impl HalImpl<Probe> for Probe {
    hal_impl_scratch!();
    hal_impl_vec_znx!();
    hal_impl_family_common!();
    hal_impl_module_fft64!();
    hal_impl_vmp_fft64!();
    hal_impl_convolution_fft64!();
    hal_impl_vec_znx_big_fft64!();
    hal_impl_svp_fft64!();
    hal_impl_vec_znx_dft_fft64!();
}

use poulpy_core::oep::CoreImpl;
unsafe impl CoreImpl<Probe> for Probe {
    poulpy_core::impl_core_default_methods!(Probe);
}

//! C19 / C06 (encryption side) on `Module<Probe>` at N = 2 (exact model of FFT64 at that degree).
//!
//! Stream model (Kani): `Source::new(seed)` records a tag of the seed and resets a word counter;
//! `Source::branch()` derives a seed from (parent tag, number of branches taken from that parent) and
//! makes the child the current stream; `Source::next_u64n` returns a word that is a fixed function of
//! (current tag, counter) xor a symbolic table entry.  Two generators created from the same seed
//! therefore produce the same words, generators created from different seeds produce different
//! ones, and a parent re-created from the same seed repeats its branch seeds - which is exactly what
//! the real ChaCha8 stream guarantees.  Natively the real generator runs.
//!
//! glwe_compressed_vs_full: decompress(glwe_compressed_encrypt_sk(pt, seed)) is limb-for-limb the
//!   result of glwe_encrypt_sk(pt) with mask generator Source::new(seed) and the same error stream.
//! gglwe_compressed_cells: every cell of decompress(gglwe_compressed_encrypt_sk(pt, seed)) decrypts
//!   (noise-free key material) to exactly the plaintext that the same cell of the standard
//!   gglwe_encrypt_sk(pt) decrypts to; the stored per-cell seeds are pairwise distinct.
use crate::c01_glwe::install_secret;
use crate::probe_be::Probe;
use crate::stubs::*;
use crate::vz::*;
use poulpy_core::layouts::{
    Base2K, Degree, Dnum, Dsize, GGLWECompressed, GGLWECompressedSeed, GGLWEDecompress, GLWECompressed, GLWEDecompress, GLWEInfos, GLWEPlaintext,
    GLWESecret, GLWESecretPreparedFactory, LWEInfos, Rank, TorusPrecision, GGLWE, GLWE,
};
use poulpy_core::{GGLWECompressedEncryptSk, GGLWEEncryptSk, GLWECompressedEncryptSk, GLWEDecrypt, GLWEEncryptSk};
use poulpy_hal::api::{ModuleNew, ScratchFromBytes};
use poulpy_hal::layouts::{Module, NoiseInfos, ScalarZnx, Scratch, ZnxInfos, ZnxView, ZnxViewMut};
use poulpy_hal::source::Source;

pub const N: usize = 2;

pub static mut TAG: u64 = 0;
pub static mut CTR: u64 = 0;
pub static mut NEW_CALLS: usize = 0;
pub static mut TABLE: [u64; 8] = [0; 8];

fn tag_of(seed: &[u8; 32]) -> u64 {
    let mut t = 0xcbf2_9ce4_8422_2325u64;
    let mut i = 0;
    while i < 32 {
        t = (t ^ seed[i] as u64).wrapping_mul(0x100_0000_01b3);
        i += 1;
    }
    t
}

pub fn source_new_model(seed: [u8; 32]) -> Source {
    unsafe {
        TAG = tag_of(&seed);
        CTR = 0;
        // a fresh generator is the parent of the branches taken from it
        PARENT_TAG = TAG;
        PARENT_BRANCHES = 0;
        NEW_CALLS += 1;
        core::mem::zeroed()
    }
}
pub static mut PARENT_TAG: u64 = 0;
pub static mut PARENT_BRANCHES: u64 = 0;

/// `parent.branch()`: the derived seed is a function of (parent seed, how many branches were taken
/// from that parent); the child becomes the current stream.  (Nested branching and draws from the
/// parent after a branch are outside the model; the code under test does neither.)
pub fn source_branch_model(_s: &mut Source) -> ([u8; 32], Source) {
    unsafe {
        PARENT_BRANCHES += 1;
        let nb = PARENT_BRANCHES;
        let v = PARENT_TAG.wrapping_mul(0x9e37_79b9_7f4a_7c15).wrapping_add(nb);
        let mut seed = [0u8; 32];
        let mut i = 0;
        while i < 8 {
            seed[i] = (v >> (8 * i)) as u8;
            seed[8 + i] = (nb >> (8 * i)) as u8;
            i += 1;
        }
        TAG = tag_of(&seed);
        CTR = 0;
        (seed, core::mem::zeroed())
    }
}

pub fn next_u64n_model(_s: &mut Source, _max: u64, mask: u64) -> u64 {
    unsafe {
        let w = TAG.wrapping_add(CTR.wrapping_mul(0x2545_f491_4f6c_dd1d)).wrapping_mul(0x9e37_79b9_7f4a_7c15) ^ TABLE[(CTR % 8) as usize];
        CTR += 1;
        (w >> 7) & mask
    }
}

pub static mut NT: [i64; 4] = [0; 4];
/// deterministic error stream: coefficient i of every call gets NT[i] (|.| <= bound)
pub fn add_normal_model(res: &mut [i64], _sigma: f64, bound: f64, _source: &mut Source) {
    let lim = bound.round() as i64;
    let mut i = 0;
    while i < res.len() {
        let e = unsafe { NT[i % 4] };
        assert!(e >= -lim && e <= lim);
        res[i] = res[i].wrapping_add(e);
        i += 1;
    }
}

fn init_model(noise_bound: i64, sym_table: bool) {
    #[cfg(kani)]
    unsafe {
        let mut i = 0;
        while i < 8 {
            TABLE[i] = if sym_table && i < 2 { vsym::u64() } else { 0 };
            i += 1;
        }
        let mut i = 0;
        while i < 4 {
            let e = vsym::i64();
            vsym::assume(e >= -noise_bound && e <= noise_bound);
            NT[i] = e;
            i += 1;
        }
    }
}

#[cfg(kani)]
fn mk_source(seed: [u8; 32]) -> Source {
    source_new_model(seed)
}
#[cfg(not(kani))]
fn mk_source(seed: [u8; 32]) -> Source {
    Source::new(seed)
}

pub fn glwe_compressed_vs_full<const B: usize, const K: usize, const AR: usize>(rank: usize, sp: u64, nsym: usize) {
    let module: Module<Probe> = Module::<Probe>::new(N as u64);
    let (n, b, k) = (Degree(N as u32), Base2K(B as u32), TorusPrecision(K as u32));
    let size = K.div_ceil(B);
    let sh = (size * B - K) as u32;
    init_model((19.2f64 * ((1u64 << sh) as f64)).round() as i64, nsym >= 100);
    let mut sk = GLWESecret::alloc(n, Rank(rank as u32));
    install_secret::<N>(&mut sk, rank, sp);
    let mut skp = module.glwe_secret_prepared_alloc(Rank(rank as u32));
    module.glwe_secret_prepare(&mut skp, &sk);
    let mut pt = GLWEPlaintext::alloc(n, b, k);
    {
        // fixed digit pattern, the first `nsym` words symbolic
        let h = 1i64 << (B - 1);
        let raw = pt.data_mut().raw_mut();
        let mut s = 0x0123_4567_89ab_cdefu64;
        let mut i = 0;
        while i < raw.len() {
            s = s.wrapping_mul(6364136223846793005).wrapping_add(1442695040888963407);
            raw[i] = (((s >> 20) & ((1u64 << B) - 1)) as i64) - h;
            if i < nsym {
                let d = vsym::i64();
                vsym::assume(d >= -h && d < h);
                raw[i] = d;
            }
            i += 1;
        }
    }
    let mut seed = [0u8; 32];
    seed[0] = vsym::u8();
    let infos = NoiseInfos { k: K, sigma: 3.2, bound: 19.2 };
    let mut arena = Buf::<AR>([0x5a5a_5a5a_5a5a_5a5ai64; AR]);
    set_arena(arena.bytes().as_ptr());

    // (A) compressed encryption, then decompression
    let mut c = GLWECompressed::alloc(n, b, k, Rank(rank as u32));
    {
        let mut xe = source(1);
        let need = module.glwe_compressed_encrypt_sk_tmp_bytes(&c) + 192;
        assert!(need <= 8 * AR, "GRID ERROR: arena");
        let scratch: &mut Scratch<Probe> = Scratch::<Probe>::from_bytes(&mut arena.bytes_mut()[..need]);
        module.glwe_compressed_encrypt_sk(&mut c, &pt, &skp, seed, &infos, &mut xe, scratch);
        core::mem::forget(xe);
    }
    let mut ra = GLWE::alloc(n, b, k, Rank(rank as u32));
    {
        let raw = ra.data_mut().raw_mut();
        let mut i = 0;
        while i < raw.len() {
            raw[i] = vsym::i64();
            i += 1;
        }
    }
    module.decompress_glwe(&mut ra, &c);

    // (B) standard encryption with the mask generator seeded by the same seed, same error stream
    let mut rb = GLWE::alloc(n, b, k, Rank(rank as u32));
    {
        let mut xe = source(1);
        let mut xa = mk_source(seed);
        let need = module.glwe_encrypt_sk_tmp_bytes(&rb) + 192;
        assert!(need <= 8 * AR, "GRID ERROR: arena");
        let scratch: &mut Scratch<Probe> = Scratch::<Probe>::from_bytes(&mut arena.bytes_mut()[..need]);
        module.glwe_encrypt_sk(&mut rb, &pt, &skp, &infos, &mut xe, &mut xa, scratch);
        core::mem::forget((xe, xa));
    }
    let (x, y) = (ra.data().raw(), rb.data().raw());
    let mut i = 0;
    while i < x.len() {
        assert!(x[i] == y[i], "decompressed ciphertext differs from the standard encryption under the stored seed");
        i += 1;
    }
    vsym::reached();
}

pub fn gglwe_compressed_cells<const B: usize, const K: usize, const DSIZE: usize, const DNUM: usize, const AR: usize>(rank_in: usize, rank_out: usize, sp: u64, nsym: usize) {
    let module: Module<Probe> = Module::<Probe>::new(N as u64);
    let (n, b, k) = (Degree(N as u32), Base2K(B as u32), TorusPrecision(K as u32));
    let size = K.div_ceil(B);
    init_model(0, false);
    let mut sk = GLWESecret::alloc(n, Rank(rank_out as u32));
    install_secret::<N>(&mut sk, rank_out, sp);
    let mut skp = module.glwe_secret_prepared_alloc(Rank(rank_out as u32));
    module.glwe_secret_prepare(&mut skp, &sk);
    // plaintext: rank_in small polynomials (symbolic coefficients in [-4, 4])
    let mut pt = ScalarZnx::alloc(N, rank_in);
    {
        let raw = pt.raw_mut();
        let mut i = 0;
        while i < raw.len() {
            raw[i] = [3i64, -2, 1, -4, 2, 0, -1, 4][i % 8];
            if i < nsym {
                let d = vsym::i64();
                vsym::assume(d >= -4 && d <= 4);
                raw[i] = d;
            }
            i += 1;
        }
    }
    let mut seed = [3u8; 32];
    if nsym >= 100 {
        seed[0] = vsym::u8();
    }
    let infos = NoiseInfos { k: K, sigma: 0.0, bound: 0.0 };
    let mut arena = Buf::<AR>([0i64; AR]);
    set_arena(arena.bytes().as_ptr());
    let (ri, ro, dn, ds) = (Rank(rank_in as u32), Rank(rank_out as u32), Dnum(DNUM as u32), Dsize(DSIZE as u32));

    let mut c = GGLWECompressed::alloc(n, b, k, ri, ro, dn, ds);
    {
        let mut xe = source(1);
        let need = module.gglwe_compressed_encrypt_sk_tmp_bytes(&c) + 256;
        assert!(need <= 8 * AR, "GRID ERROR: arena");
        let scratch: &mut Scratch<Probe> = Scratch::<Probe>::from_bytes(&mut arena.bytes_mut()[..need]);
        module.gglwe_compressed_encrypt_sk(&mut c, &pt, &skp, seed, &infos, &mut xe, scratch);
        core::mem::forget(xe);
    }
    // stored per-cell seeds pairwise distinct
    {
        let seeds = c.seed();
        assert!(seeds.len() == DNUM * rank_in, "number of stored seeds");
        let mut x = 0;
        while x < seeds.len() {
            let mut y = x + 1;
            while y < seeds.len() {
                let mut same = true;
                let mut t = 0;
                while t < 32 {
                    if seeds[x][t] != seeds[y][t] {
                        same = false;
                    }
                    t += 1;
                }
                assert!(!same, "two cells of the compressed key share their mask seed");
                y += 1;
            }
            x += 1;
        }
    }
    let mut ga = GGLWE::alloc(n, b, k, ri, ro, dn, ds);
    module.decompress_gglwe(&mut ga, &c);
    let mut gb = GGLWE::alloc(n, b, k, ri, ro, dn, ds);
    {
        let mut xe = source(1);
        let mut xa = mk_source([7u8; 32]);
        let need = module.gglwe_encrypt_sk_tmp_bytes(&gb) + 256;
        assert!(need <= 8 * AR, "GRID ERROR: arena");
        let scratch: &mut Scratch<Probe> = Scratch::<Probe>::from_bytes(&mut arena.bytes_mut()[..need]);
        module.gglwe_encrypt_sk(&mut gb, &pt, &skp, &infos, &mut xe, &mut xa, scratch);
        core::mem::forget((xe, xa));
    }
    let mut row = 0;
    while row < DNUM {
        let mut col = 0;
        while col < rank_in {
            let (ca, cb) = (ga.at(row, col), gb.at(row, col));
            let mut pa = GLWEPlaintext::alloc(n, b, k);
            let mut pb = GLWEPlaintext::alloc(n, b, k);
            let need = module.glwe_decrypt_tmp_bytes(&ca) + 128;
            assert!(need <= 8 * AR, "GRID ERROR: arena");
            {
                let scratch: &mut Scratch<Probe> = Scratch::<Probe>::from_bytes(&mut arena.bytes_mut()[..need]);
                module.glwe_decrypt(&ca, &mut pa, &skp, scratch);
            }
            {
                let scratch: &mut Scratch<Probe> = Scratch::<Probe>::from_bytes(&mut arena.bytes_mut()[..need]);
                module.glwe_decrypt(&cb, &mut pb, &skp, scratch);
            }
            let (x, y) = (pa.data().raw(), pb.data().raw());
            let mut i = 0;
            while i < x.len() {
                assert!(x[i] == y[i], "a cell of the decompressed key decrypts to another plaintext than the same cell of the standard encryption");
                i += 1;
            }
            col += 1;
        }
        row += 1;
    }
    let _ = size;
    vsym::reached();
}

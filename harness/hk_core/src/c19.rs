//! C19-A1 (decompression side): `GLWEDecompress::decompress_glwe` on a marker module.
//! `Source::new(seed)` is replaced by a stub that records the seed it was given and
//! `Source::next_u64n` by a stub that draws symbolic words and counts them, so the harness
//! decides: the body is copied unchanged, mask column i (1..=rank) holds digits of the OBJECT's
//! radix, the generator is created exactly once from the object's stored seed, and exactly
//! n * size words are drawn per mask column in column order (so that the stream lines up with
//! what compressed encryption drew); a receiver whose layout differs is refused (panic), never
//! filled from a mis-aligned stream.
use crate::vz::*;
use poulpy_core::layouts::{Base2K, Degree, GLWECompressed, GLWECompressedSeedMut, GLWEInfos, LWEInfos, Rank, TorusPrecision, GLWE};
use poulpy_core::layouts::GLWEDecompress;
use poulpy_cpu_ref::FFT64Ref;
use poulpy_hal::layouts::{Module, ZnxInfos, ZnxView, ZnxViewMut};
use poulpy_hal::source::Source;

pub static mut NEW_CALLS: usize = 0;
pub static mut NEW_SEED: [u8; 32] = [0; 32];
pub static mut WORDS: usize = 0;

pub fn source_new_stub(seed: [u8; 32]) -> Source {
    unsafe {
        NEW_CALLS += 1;
        NEW_SEED = seed;
        core::mem::zeroed()
    }
}

pub fn next_u64n_count(_s: &mut Source, max: u64, mask: u64) -> u64 {
    let x = vsym::u64() & mask;
    assert!(x < max);
    unsafe { WORDS += 1 };
    x
}

const N: usize = 2;

/// RES_SIZE == SIZE: accepted; RES_SIZE != SIZE: the harness is `should_panic` (refusal).
pub fn decompress<const B: usize, const SIZE: usize, const RANK: usize, const RES_SIZE: usize>() {
    let module: Module<FFT64Ref> = Module::<FFT64Ref>::new_marker(N as u64);
    let mut c = GLWECompressed::alloc(Degree(N as u32), Base2K(B as u32), TorusPrecision((SIZE * B) as u32), Rank(RANK as u32));
    let body = Buf::<8>::sym();
    {
        let raw = c.verif_data_mut().raw_mut();
        let n = raw.len();
        assert!(n <= 8);
        raw.copy_from_slice(&body.0[..n]);
    }
    let seed = vsym::arr_u8::<32>();
    *c.seed_mut() = seed;
    // receiver: possibly other radix metadata beforehand (must be overwritten by the object's), arbitrary content
    let mut res = GLWE::alloc(Degree(N as u32), Base2K(B as u32), TorusPrecision((RES_SIZE * B) as u32), Rank(RANK as u32));
    {
        let prior = Buf::<24>::sym();
        let raw = res.data_mut().raw_mut();
        let n = raw.len();
        assert!(n <= 24);
        raw.copy_from_slice(&prior.0[..n]);
    }
    module.decompress_glwe(&mut res, &c);
    // (only reached when the receiver was accepted)
    if RES_SIZE != SIZE {
        // refusal instance (`kani::should_panic`): returning normally is the violation; no harness
        // assertion may fire here, or it would itself count as the expected panic
        return;
    }
    unsafe {
        assert!(NEW_CALLS == 1, "mask generator not created exactly once");
        let mut i = 0;
        while i < 32 {
            assert!(NEW_SEED[i] == seed[i], "mask generator not seeded with the object's stored seed");
            i += 1;
        }
        assert!(WORDS == RANK * SIZE * N, "number of words drawn for the mask differs from rank * size * n");
    }
    let h = 1i64 << (B - 1);
    let mut j = 0;
    while j < SIZE {
        let mut i = 0;
        while i < N {
            assert!(res.data().at(0, j)[i] == body.0[N * j + i], "body not copied unchanged");
            let mut col = 1;
            while col <= RANK {
                let d = res.data().at(col, j)[i];
                assert!(d >= -h && d < h, "mask digit outside the object's radix");
                col += 1;
            }
            i += 1;
        }
        j += 1;
    }
    assert!(res.base2k().as_usize() == B);
    vsym::reached();
}

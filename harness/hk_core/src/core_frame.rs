//! C11 / C12 / C03 for the operations of poulpy-core that run through vector-matrix products
//! (key-switch, external product, automorphism family): the real code on `Module<Probe>` at N = 8,
//! run TWICE on the same inputs with independent symbolic scratch contents (scratch of exactly the
//! declared `*_tmp_bytes`) and independent symbolic prior output content; the two results must be
//! identical limb for limb (no panic for lack of scratch, result independent of scratch and of
//! whatever the output held before).  The input ciphertext is a fixed digit pattern with `nsym`
//! symbolic words (all of them symbolic in the thorough tier).  No oracle: the key material is an arbitrary concrete digit
//! pattern (the statement does not depend on it being a valid key).
//! For the fused automorphism forms the result is additionally related to the plain automorphism of
//! the same input with the same key: res = autom(a) + a, autom(a) - a, a - autom(a) on the torus,
//! within one unit of the last limb.
use crate::probe_be::Probe;
use crate::spec::*;
use crate::stubs::*;
use crate::vz::*;
use poulpy_core::layouts::{
    Base2K, Degree, Dnum, Dsize, GGLWEToMut, GGSWPreparedFactory, GLWEAutomorphismKey, GLWEAutomorphismKeyPreparedFactory, GLWEInfos,
    GLWESwitchingKey, GLWESwitchingKeyPreparedFactory, LWEInfos, Rank, SetGaloisElement, TorusPrecision, GGSW, GLWE,
};
use poulpy_core::{GLWEAutomorphism, GLWEExternalProduct, GLWEKeyswitch};
use poulpy_hal::api::{ModuleNew, ScratchFromBytes};
use poulpy_hal::layouts::{Module, Scratch, ZnxInfos, ZnxView, ZnxViewMut};

pub const N: usize = 8;

fn lcg_digits(raw: &mut [i64], b: usize, seed: u64) {
    let mut s = seed;
    let mut i = 0;
    while i < raw.len() {
        s = s.wrapping_mul(6364136223846793005).wrapping_add(1442695040888963407);
        let v = ((s >> 20) & ((1u64 << b) - 1)) as i64;
        raw[i] = v - (1i64 << (b - 1));
        i += 1;
    }
}

fn sym_digits(raw: &mut [i64], b: usize) {
    let h = 1i64 << (b - 1);
    let mut i = 0;
    while i < raw.len() {
        let d = vsym::i64();
        vsym::assume(d >= -h && d < h);
        raw[i] = d;
        i += 1;
    }
}

fn sym_any(raw: &mut [i64]) {
    let mut i = 0;
    while i < raw.len() {
        raw[i] = vsym::i64();
        i += 1;
    }
}

/// B: radix of the ciphertexts, BK: radix of the key (BK != B exercises the conversion paths).
/// OP: 0 keyswitch, 1 keyswitch_assign, 2 external_product, 3 external_product_assign,
///     4 automorphism, 5 automorphism_assign, 6 automorphism_add, 7 automorphism_sub,
///     8 automorphism_sub_negate
/// KA: words of the (concrete) arena used to prepare the key; SA: words of each symbolic scratch.
pub fn core_frame<const B: usize, const BK: usize, const KIN: usize, const KK: usize, const KOUT: usize, const DSIZE: usize, const DNUM: usize, const OP: usize, const KA: usize, const SA: usize>(
    rank_in: usize,
    rank_out: usize,
    p: i64,
    nsym: usize,
) {
    let module: Module<Probe> = Module::<Probe>::new(N as u64);
    let (n, b, bk) = (Degree(N as u32), Base2K(B as u32), Base2K(BK as u32));
    let (ri, ro) = (Rank(rank_in as u32), Rank(rank_out as u32));
    let mut karena = Buf::<KA>([0i64; KA]);
    set_arena(karena.bytes().as_ptr());
    let in_place = OP == 1 || OP == 3 || OP == 5;
    let fused = OP >= 6;
    let kin = if in_place { KOUT } else { KIN };

    // input (symbolic normalised digits), shared by both runs
    let mut a = GLWE::alloc(n, b, TorusPrecision(kin as u32), ri);
    // the first `nsym` words (at a stride that touches every column and limb) symbolic, the rest a fixed pattern
    lcg_digits(a.data_mut().raw_mut(), B, 3);
    {
        let raw = a.data_mut().raw_mut();
        let len = raw.len();
        if nsym >= len {
            sym_digits(raw, B);
        } else {
            let h = 1i64 << (B - 1);
            let mut t = 0;
            while t < nsym {
                let d = vsym::i64();
                vsym::assume(d >= -h && d < h);
                raw[(t * 11 + 5) % len] = d;
                t += 1;
            }
        }
    }
    // outputs: independent symbolic prior content
    let mut r1 = GLWE::alloc(n, b, TorusPrecision(KOUT as u32), ro);
    let mut r2 = GLWE::alloc(n, b, TorusPrecision(KOUT as u32), ro);
    let mut r0 = GLWE::alloc(n, b, TorusPrecision(KOUT as u32), ro);
    if in_place {
        assert!(rank_in == rank_out, "GRID ERROR: in-place needs equal ranks");
        let len = a.data().raw().len();
        r1.data_mut().raw_mut()[..len].copy_from_slice(a.data().raw());
        r2.data_mut().raw_mut()[..len].copy_from_slice(a.data().raw());
    } else {
        sym_any(r1.data_mut().raw_mut());
        sym_any(r2.data_mut().raw_mut());
    }
    let (mut s1, mut s2) = (Buf::<SA>::sym(), Buf::<SA>::sym());

    macro_rules! scratch_of {
        ($arena:expr, $need:expr) => {{
            assert!($need <= 8 * SA, "GRID ERROR: scratch arena");
            set_arena($arena.bytes().as_ptr());
            Scratch::<Probe>::from_bytes(&mut $arena.bytes_mut()[..$need])
        }};
    }

    if OP <= 1 {
        let mut key = GLWESwitchingKey::alloc(n, bk, TorusPrecision(KK as u32), ri, ro, Dnum(DNUM as u32), Dsize(DSIZE as u32));
        lcg_digits(key.to_mut().data_mut().raw_mut(), BK, 7);
        let mut kp = module.glwe_switching_key_prepared_alloc_from_infos(&key);
        {
            let need = module.glwe_switching_key_prepare_tmp_bytes(&key) + 64;
            assert!(need <= 8 * KA, "GRID ERROR: key arena");
            let sc: &mut Scratch<Probe> = Scratch::<Probe>::from_bytes(&mut karena.bytes_mut()[..need]);
            module.glwe_switching_key_prepare(&mut kp, &key, sc);
        }
        if OP == 0 {
            let need = module.glwe_keyswitch_tmp_bytes(&r1, &a, &key);
            module.glwe_keyswitch(&mut r1, &a, &kp, scratch_of!(s1, need));
            module.glwe_keyswitch(&mut r2, &a, &kp, scratch_of!(s2, need));
        } else {
            let need = module.glwe_keyswitch_tmp_bytes(&r1, &r1, &key);
            module.glwe_keyswitch_assign(&mut r1, &kp, scratch_of!(s1, need));
            module.glwe_keyswitch_assign(&mut r2, &kp, scratch_of!(s2, need));
        }
    } else if OP <= 3 {
        assert!(rank_in == rank_out, "GRID ERROR: external product keeps the rank");
        let mut g = GGSW::alloc(n, bk, TorusPrecision(KK as u32), ri, Dnum(DNUM as u32), Dsize(DSIZE as u32));
        {
            let mut row = 0;
            while row < DNUM {
                let mut col = 0;
                while col <= rank_in {
                    lcg_digits(g.at_mut(row, col).data_mut().raw_mut(), BK, (11 + 5 * row + col) as u64);
                    col += 1;
                }
                row += 1;
            }
        }
        let mut gp = module.ggsw_prepared_alloc_from_infos(&g);
        {
            let need = module.ggsw_prepare_tmp_bytes(&g) + 64;
            assert!(need <= 8 * KA, "GRID ERROR: key arena");
            let sc: &mut Scratch<Probe> = Scratch::<Probe>::from_bytes(&mut karena.bytes_mut()[..need]);
            module.ggsw_prepare(&mut gp, &g, sc);
        }
        if OP == 2 {
            let need = module.glwe_external_product_tmp_bytes(&r1, &a, &g);
            module.glwe_external_product(&mut r1, &a, &gp, scratch_of!(s1, need));
            module.glwe_external_product(&mut r2, &a, &gp, scratch_of!(s2, need));
        } else {
            let need = module.glwe_external_product_tmp_bytes(&r1, &r1, &g);
            module.glwe_external_product_assign(&mut r1, &gp, scratch_of!(s1, need));
            module.glwe_external_product_assign(&mut r2, &gp, scratch_of!(s2, need));
        }
    } else {
        assert!(rank_in == rank_out, "GRID ERROR: automorphism keeps the rank");
        let mut key = GLWEAutomorphismKey::alloc(n, bk, TorusPrecision(KK as u32), ri, Dnum(DNUM as u32), Dsize(DSIZE as u32));
        key.set_p(p);
        lcg_digits(key.to_mut().data_mut().raw_mut(), BK, 13);
        let mut kp = module.glwe_automorphism_key_prepared_alloc_from_infos(&key);
        {
            let need = module.glwe_automorphism_key_prepare_tmp_bytes(&key) + 64;
            assert!(need <= 8 * KA, "GRID ERROR: key arena");
            let sc: &mut Scratch<Probe> = Scratch::<Probe>::from_bytes(&mut karena.bytes_mut()[..need]);
            module.glwe_automorphism_key_prepare(&mut kp, &key, sc);
        }
        let need = if OP == 5 { module.glwe_automorphism_tmp_bytes(&r1, &r1, &key) } else { module.glwe_automorphism_tmp_bytes(&r1, &a, &key) };
        match OP {
            4 => {
                module.glwe_automorphism(&mut r1, &a, &kp, scratch_of!(s1, need));
                module.glwe_automorphism(&mut r2, &a, &kp, scratch_of!(s2, need));
            }
            5 => {
                module.glwe_automorphism_assign(&mut r1, &kp, scratch_of!(s1, need));
                module.glwe_automorphism_assign(&mut r2, &kp, scratch_of!(s2, need));
            }
            6 => {
                module.glwe_automorphism_add(&mut r1, &a, &kp, scratch_of!(s1, need));
                module.glwe_automorphism_add(&mut r2, &a, &kp, scratch_of!(s2, need));
            }
            7 => {
                module.glwe_automorphism_sub(&mut r1, &a, &kp, scratch_of!(s1, need));
                module.glwe_automorphism_sub(&mut r2, &a, &kp, scratch_of!(s2, need));
            }
            _ => {
                module.glwe_automorphism_sub_negate(&mut r1, &a, &kp, scratch_of!(s1, need));
                module.glwe_automorphism_sub_negate(&mut r2, &a, &kp, scratch_of!(s2, need));
            }
        }
        if fused {
            module.glwe_automorphism(&mut r0, &a, &kp, scratch_of!(s2, need));
        }
    }

    // (1) the two runs agree limb for limb
    {
        let (x, y) = (r1.data().raw(), r2.data().raw());
        let mut i = 0;
        while i < x.len() {
            assert!(x[i] == y[i], "result depends on the scratch contents or on the prior content of the output");
            i += 1;
        }
    }
    // (2) fused automorphism forms against the plain automorphism
    if fused {
        assert!(KIN == KOUT, "GRID ERROR: fused forms are compared at equal precision");
        let size = KOUT.div_ceil(B);
        let bits = (size * B) as u32;
        let cols = rank_out + 1;
        let one = W256::from_i64(1);
        let mut c = 0;
        while c < cols {
            let mut i = 0;
            while i < N {
                let (mut x, mut y, mut z) = ([0i64; 8], [0i64; 8], [0i64; 8]);
                let mut j = 0;
                while j < size {
                    x[j] = r1.data().at(c, j)[i];
                    y[j] = a.data().at(c, j)[i];
                    z[j] = r0.data().at(c, j)[i];
                    j += 1;
                }
                let (xv, yv, zv) = (horner_w256(&x[..size], B), horner_w256(&y[..size], B), horner_w256(&z[..size], B));
                let want = match OP {
                    6 => zv.add(yv),
                    7 => zv.sub(yv),
                    _ => yv.sub(zv),
                };
                let d = xv.sub(want).center(bits);
                assert!(!d.add(one).is_neg() && !one.sub(d).is_neg(), "fused automorphism form is not automorphism(a) +/- a (resp. a - automorphism(a))");
                i += 1;
            }
            c += 1;
        }
    }
    vsym::reached();
}

//! C01 (GLWE part): `glwe_encrypt_sk` followed by `glwe_decrypt`, the real poulpy-core code over the
//! real HAL defaults and fft64 shape functions, on `Module<Probe>` at n = 2 (probe_full.rs: the
//! size-1 FFT is the identity, the leaf float kernels are exact integer kernels).  Secret concrete
//! (ternary patterns: every product is constant x symbolic), message limbs symbolic normalised
//! digits, mask words symbolic (stub of `Source::next_u64n`), error symbolic within the configured
//! bound (stub of the Gaussian kernel), scratch of exactly the declared size with symbolic contents.
//! Statement: decrypt(encrypt(m)), read in the output plaintext's own radix BO / precision KO, equals
//! m + e * 2^-K within one unit of that plaintext's last limb (exactly when it has at least the
//! ciphertext's bits), |e| <= bound; under Kani e is the sampler's recorded value.
use crate::probe_be::Probe;
use crate::spec::*;
use crate::stubs::*;
use crate::vz::*;
use poulpy_core::layouts::{
    Base2K, Degree, GLWEInfos, GLWEPlaintext, GLWESecret, GLWESecretPreparedFactory, LWEInfos, Rank, TorusPrecision, GLWE,
};
use poulpy_core::{Distribution, GLWEDecrypt, GLWEEncryptSk};
use poulpy_hal::api::{ModuleNew, ScratchFromBytes};
use poulpy_hal::layouts::{Module, NoiseInfos, Scratch, ZnxInfos, ZnxView, ZnxViewMut};


/// `sp`: base-3 digits (0 -> 0, 1 -> 1, 2 -> -1) of the secret coefficients, column-major
pub fn install_secret<const N: usize>(sk: &mut GLWESecret<Vec<u8>>, rank: usize, mut sp: u64) {
    let mut c = 0;
    while c < rank {
        let mut i = 0;
        while i < N {
            let d = (sp % 3) as i64;
            sp /= 3;
            sk.verif_data_mut().at_mut(c, 0)[i] = if d == 2 { -1 } else { d };
            i += 1;
        }
        c += 1;
    }
    sk.verif_set_dist(Distribution::TernaryProb(0.5));
}

/// SLACK: bytes added to the declared scratch sizes (0 = exactly the declared size: C12)
pub fn glwe_roundtrip<const N: usize, const B: usize, const K: usize, const PS: usize, const BO: usize, const KO: usize, const SLACK: usize, const AR: usize, const SYMSCR: bool>(rank: usize, sp: u64) {
    let module: Module<Probe> = Module::<Probe>::new(N as u64);
    let size = K.div_ceil(B);
    let mut ct = GLWE::alloc(Degree(N as u32), Base2K(B as u32), TorusPrecision(K as u32), Rank(rank as u32));
    {
        let raw = ct.data_mut().raw_mut();
        let mut i = 0;
        while i < raw.len() {
            raw[i] = vsym::i64();
            i += 1;
        }
    }
    let mut pt = GLWEPlaintext::alloc(Degree(N as u32), Base2K(B as u32), TorusPrecision((PS * B) as u32));
    let mut m = [[0i64; 8]; 8];
    {
        let h = 1i64 << (B - 1);
        let mut j = 0;
        while j < PS {
            let mut i = 0;
            while i < N {
                let d = vsym::i64();
                vsym::assume(d >= -h && d < h);
                pt.data_mut().at_mut(0, j)[i] = d;
                m[i][j] = d;
                i += 1;
            }
            j += 1;
        }
    }
    let mut sk = GLWESecret::alloc(Degree(N as u32), Rank(rank as u32));
    install_secret::<N>(&mut sk, rank, sp);
    let mut skp = module.glwe_secret_prepared_alloc(Rank(rank as u32));
    module.glwe_secret_prepare(&mut skp, &sk);

    let infos = NoiseInfos { k: K, sigma: 3.2, bound: 19.2 };
    let (mut xe, mut xa) = (source(1), source(2));
    let enc_bytes = module.glwe_encrypt_sk_tmp_bytes(&ct) + SLACK;
    let dec_bytes = module.glwe_decrypt_tmp_bytes(&ct) + SLACK;
    // scratch contents: symbolic (C12) or a fixed non-zero pattern (C01 does not depend on them)
    let mut arena = if SYMSCR { Buf::<AR>::sym() } else { Buf::<AR>([0x5a5a_5a5a_5a5a_5a5ai64; AR]) };
    assert!(enc_bytes.max(dec_bytes) <= 8 * AR, "GRID ERROR: arena");
    set_arena(arena.bytes().as_ptr());
    {
        let scratch: &mut Scratch<Probe> = Scratch::<Probe>::from_bytes(&mut arena.bytes_mut()[..enc_bytes]);
        module.glwe_encrypt_sk(&mut ct, &pt, &skp, &infos, &mut xe, &mut xa, scratch);
    }
    {
        let h = 1i64 << (B - 1);
        let mut c = 0;
        while c <= rank {
            let mut j = 0;
            while j < size {
                let row = ct.data().at(c, j);
                let mut i = 0;
                while i < N {
                    assert!(row[i] >= -h && row[i] < h, "ciphertext limb not a normalised digit");
                    i += 1;
                }
                j += 1;
            }
            c += 1;
        }
    }
    let mut out = GLWEPlaintext::alloc(Degree(N as u32), Base2K(BO as u32), TorusPrecision(KO as u32));
    {
        let scratch: &mut Scratch<Probe> = Scratch::<Probe>::from_bytes(&mut arena.bytes_mut()[..dec_bytes]);
        module.glwe_decrypt(&ct, &mut out, &skp, scratch);
    }
    // common width W; R = decrypted value (so*BO bits), M = message (size*B bits), e at 2^-K
    let so = KO.div_ceil(BO);
    let (cb, ob) = (size * B, so * BO);
    let w = if cb > ob { cb } else { ob };
    assert!(w <= 200, "GRID ERROR: width");
    let sh = (cb - K) as u32;
    let lim = (19.2f64 * ((1u64 << sh) as f64)).round() as i64;
    let unit = if ob < cb { W256::from_i64(1).shl((w - ob) as u32) } else { W256::ZERO };
    let elim = W256::from_i64(lim).shl((w - cb) as u32);
    let mut i = 0;
    while i < N {
        let mut o = [0i64; 8];
        let mut j = 0;
        while j < so {
            o[j] = out.data().at(0, j)[i];
            // C08: digit range is promised for equal radices only
            assert!(BO != B || in_digit_range(BO, o[j]), "decrypted limb not a normalised digit");
            j += 1;
        }
        let rw = horner_w256(&o[..so], BO).shl((w - ob) as u32);
        let mw = horner_w256(&m[i][..size], B).shl((w - cb) as u32);
        let d = rw.sub(mw).center(w as u32);
        let tol = unit.add(elim);
        assert!(!d.add(tol).is_neg() && !tol.sub(d).is_neg(), "decrypt(encrypt(m)) - m exceeds error bound + one unit of the plaintext's last limb");
        #[cfg(kani)]
        unsafe {
            if i < 4 {
                let ew = W256::from_i64(NOISE_LAST[i]).shl((w - cb) as u32); // the kernel receives bound * 2^sh: the recorded value is already scaled
                let d2 = d.sub(ew).center(w as u32);
                assert!(!d2.add(unit).is_neg() && !unit.sub(d2).is_neg(), "decryption result is not message + sampled error at 2^-k (within one unit of the plaintext's last limb)");
            }
        }
        i += 1;
    }
    #[cfg(kani)]
    unsafe {
        assert!(NOISE_CALLS == 1, "error sampler not called exactly once");
    }
    core::mem::forget((xe, xa));
    vsym::reached();
}

/// Decryption against an independent phase oracle (no stub at all, so every counterexample replays
/// natively): ciphertext limbs symbolic normalised digits, secret concrete ternary, N = 2 (where the
/// substituted backend computes exactly the negacyclic product).  The decrypted plaintext, read in
/// its own radix BO / precision KO, must equal  body + sum_c mask_c * s_c  (negacyclic, exact big
/// integers) within one unit of its last limb, exactly when it has at least the ciphertext's bits.
pub fn glwe_decrypt_oracle<const B: usize, const K: usize, const BO: usize, const KO: usize, const AR: usize>(rank: usize, sp: u64) {
    const N: usize = 2;
    let module: Module<Probe> = Module::<Probe>::new(N as u64);
    let size = K.div_ceil(B);
    let mut ct = GLWE::alloc(Degree(N as u32), Base2K(B as u32), TorusPrecision(K as u32), Rank(rank as u32));
    {
        let h = 1i64 << (B - 1);
        let raw = ct.data_mut().raw_mut();
        let mut i = 0;
        while i < raw.len() {
            let d = vsym::i64();
            vsym::assume(d >= -h && d < h);
            raw[i] = d;
            i += 1;
        }
    }
    let mut sk = GLWESecret::alloc(Degree(N as u32), Rank(rank as u32));
    install_secret::<N>(&mut sk, rank, sp);
    let mut s = [[0i64; N]; 3];
    {
        let mut q = sp;
        let mut c = 0;
        while c < rank {
            let mut i = 0;
            while i < N {
                let d = (q % 3) as i64;
                q /= 3;
                s[c][i] = if d == 2 { -1 } else { d };
                i += 1;
            }
            c += 1;
        }
    }
    let mut skp = module.glwe_secret_prepared_alloc(Rank(rank as u32));
    module.glwe_secret_prepare(&mut skp, &sk);
    let mut out = GLWEPlaintext::alloc(Degree(N as u32), Base2K(BO as u32), TorusPrecision(KO as u32));
    {
        // prior plaintext content arbitrary
        let raw = out.data_mut().raw_mut();
        let mut i = 0;
        while i < raw.len() {
            raw[i] = vsym::i64();
            i += 1;
        }
    }
    let dec_bytes = module.glwe_decrypt_tmp_bytes(&ct) + 128;
    let mut arena = Buf::<AR>([0x5a5a_5a5a_5a5a_5a5ai64; AR]);
    assert!(dec_bytes <= 8 * AR, "GRID ERROR: arena");
    set_arena(arena.bytes().as_ptr());
    {
        let scratch: &mut Scratch<Probe> = Scratch::<Probe>::from_bytes(&mut arena.bytes_mut()[..dec_bytes]);
        module.glwe_decrypt(&ct, &mut out, &skp, scratch);
    }
    let so = KO.div_ceil(BO);
    let (cb, ob) = (size * B, so * BO);
    let mut i = 0;
    while i < N {
        // oracle: limb j of the phase, coefficient i
        let mut ph = [0i128; 8];
        let mut j = 0;
        while j < size {
            let mut acc = ct.data().at(0, j)[i] as i128;
            let mut c = 0;
            while c < rank {
                let a = ct.data().at(c + 1, j);
                let (a0, a1, s0, s1) = (a[0] as i128, a[1] as i128, s[c][0] as i128, s[c][1] as i128);
                acc += if i == 0 { a0 * s0 - a1 * s1 } else { a0 * s1 + a1 * s0 };
                c += 1;
            }
            ph[j] = acc;
            j += 1;
        }
        let mut o = [0i64; 8];
        let mut j = 0;
        while j < so {
            o[j] = out.data().at(0, j)[i];
            // C08: digit range is promised for equal radices only
            assert!(BO != B || in_digit_range(BO, o[j]), "decrypted limb not a normalised digit");
            j += 1;
        }
        let r = horner_w256(&o[..so], BO);
        let a = horner_w256_i128(&ph[..size], B);
        assert!(torus_rel(r, ob, a, cb, 0), "decrypted plaintext differs from body + <mask, s> (one unit of its last limb allowed only when it is narrower)");
        i += 1;
    }
    vsym::reached();
}

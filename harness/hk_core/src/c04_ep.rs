//! C04 (external product), ring-generic part: `glwe_external_product` / `_assign` through the real
//! poulpy-core code on `Module<Probe>` at N = 8.  The substituted backend multiplies in
//! R' = Z[i]^4 (coefficient k and k+4 of a polynomial form the Gaussian integer z_k, products are
//! pointwise), so the statement decided is the ring-generic one, over R':
//!
//!     glwe_decrypt(glwe_external_product(ct, GGSW(m2)), s)  ==  m2 (*) glwe_decrypt(ct, s)
//!
//! exactly on the torus, with (*) the product of R' computed by a ten-line big-integer oracle that
//! knows nothing of gadgets, digits or limbs.  The GGSW is produced by the real `ggsw_encrypt_sk` +
//! `ggsw_prepare` from a concrete ternary secret, a concrete small m2, zero noise and a deterministic
//! mask stream; the input ciphertext is a fixed digit pattern with `nsym` symbolic words; prior
//! output content and the scratch of exactly `glwe_external_product_tmp_bytes` are symbolic.
//! What this does NOT decide: that the real FFT backend multiplies in Z[X]/(X^N+1) (C07).
use crate::c01_glwe::install_secret;
use crate::probe_be::Probe;
use crate::spec::*;
use crate::stubs::*;
use crate::vz::*;
use poulpy_core::layouts::{
    Base2K, Degree, Dnum, Dsize, GGSWPreparedFactory, GLWEInfos, GLWEPlaintext, GLWESecret, GLWESecretPreparedFactory, LWEInfos, Rank, TorusPrecision,
    GGSW, GLWE,
};
use poulpy_core::{GGSWEncryptSk, GLWEDecrypt, GLWEExternalProduct};
use poulpy_hal::api::{ModuleNew, ScratchFromBytes};
use poulpy_hal::layouts::{Module, NoiseInfos, ScalarZnx, Scratch, ZnxInfos, ZnxView, ZnxViewMut};

pub const N: usize = 8;

fn mul_small(v: W256, c: i64) -> W256 {
    // c in [-4, 4]
    let mut acc = W256::ZERO;
    let mut t = 0;
    let a = if c < 0 { -c } else { c };
    while t < a {
        acc = acc.add(v);
        t += 1;
    }
    if c < 0 { acc.neg() } else { acc }
}

/// m2 pattern MP: 0 -> 1 + X + X^2 + X^3 (the identity of R'), 1 -> X^5 - 2, 2 -> dense small, 3 -> 0
fn m2_coeffs(mp: usize) -> [i64; N] {
    match mp {
        0 => [1, 1, 1, 1, 0, 0, 0, 0],
        1 => [-2, 0, 0, 0, 0, 1, 0, 0],
        2 => [1, -1, 2, 0, -2, 1, 0, 3],
        _ => [0; N],
    }
}

pub fn glwe_external_product_value<const B: usize, const KIN: usize, const KG: usize, const KOUT: usize, const DSIZE: usize, const DNUM: usize, const IN_PLACE: bool, const KA: usize, const SA: usize>(
    rank: usize,
    sp: u64,
    mp: usize,
    nsym: usize,
) {
    let module: Module<Probe> = Module::<Probe>::new(N as u64);
    let (n, b, r) = (Degree(N as u32), Base2K(B as u32), Rank(rank as u32));
    let mut sk = GLWESecret::alloc(n, r);
    install_secret::<N>(&mut sk, rank, sp);
    let mut skp = module.glwe_secret_prepared_alloc(r);
    module.glwe_secret_prepare(&mut skp, &sk);

    let m2 = m2_coeffs(mp);
    let mut pt2 = ScalarZnx::alloc(N, 1);
    pt2.raw_mut().copy_from_slice(&m2);

    let mut karena = Buf::<KA>([0i64; KA]);
    set_arena(karena.bytes().as_ptr());
    let mut g = GGSW::alloc(n, b, TorusPrecision(KG as u32), r, Dnum(DNUM as u32), Dsize(DSIZE as u32));
    let noise0 = NoiseInfos { k: KG, sigma: 0.0, bound: 0.0 };
    let (mut xe, mut xa) = (source(5), source(6));
    {
        let need = module.ggsw_encrypt_sk_tmp_bytes(&g) + 64;
        assert!(need <= 8 * KA, "GRID ERROR: key arena");
        let scratch: &mut Scratch<Probe> = Scratch::<Probe>::from_bytes(&mut karena.bytes_mut()[..need]);
        module.ggsw_encrypt_sk(&mut g, &pt2, &skp, &noise0, &mut xe, &mut xa, scratch);
    }
    let mut gp = module.ggsw_prepared_alloc_from_infos(&g);
    {
        let need = module.ggsw_prepare_tmp_bytes(&g) + 64;
        assert!(need <= 8 * KA, "GRID ERROR: key arena (prepare)");
        let scratch: &mut Scratch<Probe> = Scratch::<Probe>::from_bytes(&mut karena.bytes_mut()[..need]);
        module.ggsw_prepare(&mut gp, &g, scratch);
    }

    let kin = if IN_PLACE { KOUT } else { KIN };
    let mut ct = GLWE::alloc(n, b, TorusPrecision(kin as u32), r);
    {
        let h = 1i64 << (B - 1);
        let raw = ct.data_mut().raw_mut();
        let len = raw.len();
        let mut s = 0x1234_5678_9abc_def1u64;
        let mut i = 0;
        while i < len {
            s = s.wrapping_mul(6364136223846793005).wrapping_add(1442695040888963407);
            raw[i] = (((s >> 20) & ((1u64 << B) - 1)) as i64) - h;
            i += 1;
        }
        let mut t = 0;
        while t < nsym && t < len {
            let d = vsym::i64();
            vsym::assume(d >= -h && d < h);
            raw[if nsym >= len { t } else { (t * 11 + 5) % len }] = d;
            t += 1;
        }
    }
    let size_in = kin.div_ceil(B);
    let mut pt_in = GLWEPlaintext::alloc(n, b, TorusPrecision(kin as u32));
    {
        let need = module.glwe_decrypt_tmp_bytes(&ct) + 64;
        assert!(need <= 8 * KA, "GRID ERROR: key arena (decrypt)");
        let scratch: &mut Scratch<Probe> = Scratch::<Probe>::from_bytes(&mut karena.bytes_mut()[..need]);
        module.glwe_decrypt(&ct, &mut pt_in, &skp, scratch);
    }

    let mut out = GLWE::alloc(n, b, TorusPrecision(KOUT as u32), r);
    let size_out = KOUT.div_ceil(B);
    let mut sarena = Buf::<SA>::sym();
    set_arena(sarena.bytes().as_ptr());
    if IN_PLACE {
        let need = module.glwe_external_product_tmp_bytes(&ct, &ct, &g);
        assert!(need <= 8 * SA, "GRID ERROR: scratch arena");
        let scratch: &mut Scratch<Probe> = Scratch::<Probe>::from_bytes(&mut sarena.bytes_mut()[..need]);
        module.glwe_external_product_assign(&mut ct, &gp, scratch);
    } else {
        {
            let raw = out.data_mut().raw_mut();
            let mut i = 0;
            while i < raw.len() {
                raw[i] = vsym::i64();
                i += 1;
            }
        }
        let need = module.glwe_external_product_tmp_bytes(&out, &ct, &g);
        assert!(need <= 8 * SA, "GRID ERROR: scratch arena");
        let scratch: &mut Scratch<Probe> = Scratch::<Probe>::from_bytes(&mut sarena.bytes_mut()[..need]);
        module.glwe_external_product(&mut out, &ct, &gp, scratch);
    }
    let res: &GLWE<Vec<u8>> = if IN_PLACE { &ct } else { &out };
    let mut pt_out = GLWEPlaintext::alloc(n, b, TorusPrecision(KOUT as u32));
    set_arena(karena.bytes().as_ptr());
    {
        let need = module.glwe_decrypt_tmp_bytes(res) + 64;
        assert!(need <= 8 * KA, "GRID ERROR: key arena (decrypt out)");
        let scratch: &mut Scratch<Probe> = Scratch::<Probe>::from_bytes(&mut karena.bytes_mut()[..need]);
        module.glwe_decrypt(res, &mut pt_out, &skp, scratch);
    }
    // oracle over R': z_k = (coefficient k) + i (coefficient k + N/2), pointwise product with m2
    let (ib, ob) = (size_in * B, size_out * B);
    let mut vin = [W256::ZERO; N];
    let mut vout = [W256::ZERO; N];
    let mut i = 0;
    while i < N {
        let (mut a, mut o) = ([0i64; 8], [0i64; 8]);
        let mut j = 0;
        while j < size_in {
            a[j] = pt_in.data().at(0, j)[i];
            j += 1;
        }
        let mut j = 0;
        while j < size_out {
            o[j] = pt_out.data().at(0, j)[i];
            j += 1;
        }
        vin[i] = horner_w256(&a[..size_in], B);
        vout[i] = horner_w256(&o[..size_out], B);
        i += 1;
    }
    let h = N / 2;
    let mut k = 0;
    while k < h {
        let (mr, mi) = (m2[k], m2[k + h]);
        let want_re = mul_small(vin[k], mr).sub(mul_small(vin[k + h], mi));
        let want_im = mul_small(vin[k + h], mr).add(mul_small(vin[k], mi));
        assert!(torus_rel(vout[k], ob, want_re, ib, 0), "phase of the external product is not m2 * phase(ct) (real part)");
        assert!(torus_rel(vout[k + h], ob, want_im, ib, 0), "phase of the external product is not m2 * phase(ct) (imaginary part)");
        k += 1;
    }
    core::mem::forget((xe, xa));
    vsym::reached();
}

//! Substituted-kernel backend *type* (DESIGN §2.4 / C07-A1 / C11-A2): the generic shape
//! functions of `poulpy_cpu_ref::reference::fft64::*` are instantiated with `Probe`, whose leaf
//! kernels are exact integer operations on the f64 *bit patterns* and whose "FFT" is the
//! identity.  All shape logic (size rules, step/offset selection, zero-fill, column addressing,
//! raw-offset block writers) is the repository's real code; only IEEE arithmetic is replaced.
use poulpy_cpu_ref::reference::fft64::reim::{ReimArith, ReimFFTExecute, ReimFFTTable, ReimIFFTTable};
use poulpy_hal::layouts::Backend;
use std::ptr::NonNull;

pub struct Probe;

impl Backend for Probe {
    type ScalarBig = i64;
    type ScalarPrep = f64;
    type OwnedBuf = Vec<u8>;
    type Handle = crate::probe_full::ProbeHandle;
    fn alloc_bytes(len: usize) -> Self::OwnedBuf {
        poulpy_hal::alloc_aligned::<u8>(len)
    }
    fn from_bytes(bytes: Vec<u8>) -> Self::OwnedBuf {
        bytes
    }
    unsafe fn destroy(handle: NonNull<Self::Handle>) {
        unsafe { drop(Box::from_raw(handle.as_ptr())) }
    }
}

#[inline(always)]
pub fn fb(x: f64) -> i64 {
    x.to_bits() as i64
}
#[inline(always)]
pub fn bf(x: i64) -> f64 {
    f64::from_bits(x as u64)
}


impl ReimArith for Probe {
    fn reim_from_znx(res: &mut [f64], a: &[i64]) {
        for (r, x) in res.iter_mut().zip(a.iter()) {
            *r = bf(*x)
        }
    }
    fn reim_from_znx_masked(res: &mut [f64], a: &[i64], mask: i64) {
        for (r, x) in res.iter_mut().zip(a.iter()) {
            *r = bf(*x & mask)
        }
    }
    fn reim_to_znx(res: &mut [i64], _divisor: f64, a: &[f64]) {
        for (r, x) in res.iter_mut().zip(a.iter()) {
            *r = fb(*x)
        }
    }
    fn reim_to_znx_assign(_res: &mut [f64], _divisor: f64) {
        // bit pattern already is the integer
    }
    fn reim_add(res: &mut [f64], a: &[f64], b: &[f64]) {
        for ((r, x), y) in res.iter_mut().zip(a.iter()).zip(b.iter()) {
            *r = bf(fb(*x).wrapping_add(fb(*y)))
        }
    }
    fn reim_add_assign(res: &mut [f64], a: &[f64]) {
        for (r, x) in res.iter_mut().zip(a.iter()) {
            *r = bf(fb(*r).wrapping_add(fb(*x)))
        }
    }
    fn reim_sub(res: &mut [f64], a: &[f64], b: &[f64]) {
        for ((r, x), y) in res.iter_mut().zip(a.iter()).zip(b.iter()) {
            *r = bf(fb(*x).wrapping_sub(fb(*y)))
        }
    }
    fn reim_sub_assign(res: &mut [f64], a: &[f64]) {
        for (r, x) in res.iter_mut().zip(a.iter()) {
            *r = bf(fb(*r).wrapping_sub(fb(*x)))
        }
    }
    fn reim_sub_negate_assign(res: &mut [f64], a: &[f64]) {
        for (r, x) in res.iter_mut().zip(a.iter()) {
            *r = bf(fb(*x).wrapping_sub(fb(*r)))
        }
    }
    fn reim_negate(res: &mut [f64], a: &[f64]) {
        for (r, x) in res.iter_mut().zip(a.iter()) {
            *r = bf(fb(*x).wrapping_neg())
        }
    }
    fn reim_negate_assign(res: &mut [f64]) {
        for r in res.iter_mut() {
            *r = bf(fb(*r).wrapping_neg())
        }
    }
    // pointwise Gaussian-integer product on (re | im) halves
    fn reim_mul(res: &mut [f64], a: &[f64], b: &[f64]) {
        let m = res.len() / 2;
        for i in 0..m {
            let (ar, ai, br, bi) = (fb(a[i]), fb(a[i + m]), fb(b[i]), fb(b[i + m]));
            res[i] = bf(ar.wrapping_mul(br).wrapping_sub(ai.wrapping_mul(bi)));
            res[i + m] = bf(ar.wrapping_mul(bi).wrapping_add(ai.wrapping_mul(br)));
        }
    }
    fn reim_mul_assign(res: &mut [f64], a: &[f64]) {
        let m = res.len() / 2;
        for i in 0..m {
            let (ar, ai, br, bi) = (fb(res[i]), fb(res[i + m]), fb(a[i]), fb(a[i + m]));
            res[i] = bf(ar.wrapping_mul(br).wrapping_sub(ai.wrapping_mul(bi)));
            res[i + m] = bf(ar.wrapping_mul(bi).wrapping_add(ai.wrapping_mul(br)));
        }
    }
    fn reim_addmul(res: &mut [f64], a: &[f64], b: &[f64]) {
        let m = res.len() / 2;
        for i in 0..m {
            let (ar, ai, br, bi) = (fb(a[i]), fb(a[i + m]), fb(b[i]), fb(b[i + m]));
            res[i] = bf(fb(res[i]).wrapping_add(ar.wrapping_mul(br).wrapping_sub(ai.wrapping_mul(bi))));
            res[i + m] = bf(fb(res[i + m]).wrapping_add(ar.wrapping_mul(bi).wrapping_add(ai.wrapping_mul(br))));
        }
    }
    fn reim_copy(res: &mut [f64], a: &[f64]) {
        for (r, x) in res.iter_mut().zip(a.iter()) {
            *r = bf(fb(*x))
        }
    }
    fn reim_zero(res: &mut [f64]) {
        for r in res.iter_mut() {
            *r = bf(0)
        }
    }
}

impl ReimFFTExecute<ReimFFTTable<f64>, f64> for Probe {
    fn reim_dft_execute(_table: &ReimFFTTable<f64>, _data: &mut [f64]) {}
}
impl ReimFFTExecute<ReimIFFTTable<f64>, f64> for Probe {
    fn reim_dft_execute(_table: &ReimIFFTTable<f64>, _data: &mut [f64]) {}
}

// ---- block (reim4) kernels: exact integer arithmetic on the bit patterns; the pure data movers
// (extract / save_contiguous) keep the repository's default implementations.
use poulpy_cpu_ref::reference::fft64::reim4::{Reim4BlkMatVec, Reim4Convolution};

#[inline(always)]
fn iadd(dst: &mut f64, x: i64) {
    *dst = bf(fb(*dst).wrapping_add(x));
}

/// acc += a (*) b on one block of 4 Gaussian integers ([re(4) | im(4)])
#[inline(always)]
pub fn add_mul_bits(acc: &mut [i64; 8], a: &[f64], b: &[f64]) {
    for k in 0..4 {
        let (ar, ai, br, bi) = (fb(a[k]), fb(a[k + 4]), fb(b[k]), fb(b[k + 4]));
        acc[k] = acc[k].wrapping_add(ar.wrapping_mul(br).wrapping_sub(ai.wrapping_mul(bi)));
        acc[k + 4] = acc[k + 4].wrapping_add(ar.wrapping_mul(bi).wrapping_add(ai.wrapping_mul(br)));
    }
}

impl Reim4BlkMatVec for Probe {
    fn reim4_save_1blk<const OVERWRITE: bool>(m: usize, blk: usize, dst: &mut [f64], src: &[f64]) {
        let off = blk << 2;
        for h in 0..2 {
            for k in 0..4 {
                let d = &mut dst[off + h * m + k];
                if OVERWRITE { *d = bf(fb(src[4 * h + k])) } else { iadd(d, fb(src[4 * h + k])) }
            }
        }
    }
    fn reim4_save_2blks<const OVERWRITE: bool>(m: usize, blk: usize, dst: &mut [f64], src: &[f64]) {
        let off = blk << 2;
        for h in 0..4 {
            for k in 0..4 {
                let d = &mut dst[off + h * m + k];
                if OVERWRITE { *d = bf(fb(src[4 * h + k])) } else { iadd(d, fb(src[4 * h + k])) }
            }
        }
    }
    fn reim4_mat1col_prod(nrows: usize, dst: &mut [f64], u: &[f64], v: &[f64]) {
        let mut acc = [0i64; 8];
        for i in 0..nrows {
            add_mul_bits(&mut acc, &u[8 * i..], &v[8 * i..]);
        }
        for k in 0..8 {
            dst[k] = bf(acc[k]);
        }
    }
    fn reim4_mat2cols_prod(nrows: usize, dst: &mut [f64], u: &[f64], v: &[f64]) {
        let (mut a0, mut a1) = ([0i64; 8], [0i64; 8]);
        for i in 0..nrows {
            add_mul_bits(&mut a0, &u[8 * i..], &v[16 * i..]);
            add_mul_bits(&mut a1, &u[8 * i..], &v[16 * i + 8..]);
        }
        for k in 0..8 {
            dst[k] = bf(a0[k]);
            dst[8 + k] = bf(a1[k]);
        }
    }
    fn reim4_mat2cols_2ndcol_prod(nrows: usize, dst: &mut [f64], u: &[f64], v: &[f64]) {
        let mut acc = [0i64; 8];
        for i in 0..nrows {
            add_mul_bits(&mut acc, &u[8 * i..], &v[16 * i + 8..]);
        }
        for k in 0..8 {
            dst[k] = bf(acc[k]);
        }
    }
}

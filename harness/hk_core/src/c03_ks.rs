//! C03 (key-switch): `glwe_keyswitch` through the real poulpy-core / HAL-default / fft64 shape code
//! on `Module<Probe>` at N = 8 (vector-matrix products need N >= 8).  At N = 8 the substituted
//! backend multiplies in the ring R' = Z[i]^4 (pointwise Gaussian integers) instead of
//! Z[X]/(X^8+1); the statement decided is ring-generic (it holds in every commutative ring in
//! which the leaf kernels multiply exactly), and it is oracle-free:
//!
//!     glwe_decrypt(glwe_keyswitch(ct, KSK(s_in -> s_out)), s_out)  ==  glwe_decrypt(ct, s_in)
//!
//! exactly on the torus when the switching key carries no noise and the output is wide enough to
//! hold every produced limb (one unit of the output's last limb otherwise).  The switching key is
//! produced by the real `glwe_switching_key_encrypt_sk` + `glwe_switching_key_prepare` from concrete
//! ternary secrets, zero noise and a deterministic mask stream; the input ciphertext is
//! a fixed digit pattern with `nsym` symbolic words (all words in the thorough tier), the prior output content and the key-switch scratch (exactly
//! `glwe_keyswitch_tmp_bytes`) are symbolic.
use crate::c01_glwe::install_secret;
use crate::probe_be::Probe;
use crate::spec::*;
use crate::stubs::*;
use crate::vz::*;
use poulpy_core::layouts::{
    Base2K, Degree, Dnum, Dsize, GLWEInfos, GLWEPlaintext, GLWESecret, GLWESecretPreparedFactory, GLWESwitchingKey,
    GLWESwitchingKeyPreparedFactory, LWEInfos, Rank, TorusPrecision, GLWE,
};
use poulpy_core::{Distribution, GLWEDecrypt, GLWEKeyswitch, GLWESwitchingKeyEncryptSk};
use poulpy_hal::api::{ModuleNew, ScratchFromBytes};
use poulpy_hal::layouts::{Module, NoiseInfos, Scratch, ZnxInfos, ZnxView, ZnxViewMut};

pub const N: usize = 8;

/// deterministic stand-in for `Source::next_u64n` while the key is generated (Kani only)
pub static mut LCG: u64 = 0x9e37_79b9_7f4a_7c15;
pub fn next_u64n_lcg(_s: &mut poulpy_hal::source::Source, _max: u64, mask: u64) -> u64 {
    unsafe {
        LCG = LCG.wrapping_mul(6364136223846793005).wrapping_add(1442695040888963407);
        (LCG >> 11) & mask
    }
}

/// IN_PLACE: glwe_keyswitch_assign.  KA: arena words for key generation / decryption (concrete),
/// SA: arena words for the key-switch scratch (symbolic, exact size).
pub fn glwe_keyswitch_phase<const B: usize, const KIN: usize, const KKSK: usize, const KOUT: usize, const DSIZE: usize, const DNUM: usize, const IN_PLACE: bool, const KA: usize, const SA: usize>(
    rank_in: usize,
    rank_out: usize,
    sp_in: u64,
    sp_out: u64,
    nsym: usize,
) {
    let module: Module<Probe> = Module::<Probe>::new(N as u64);
    let (n, b) = (Degree(N as u32), Base2K(B as u32));
    let mut sk_in = GLWESecret::alloc(n, Rank(rank_in as u32));
    install_secret::<N>(&mut sk_in, rank_in, sp_in);
    let mut sk_out = GLWESecret::alloc(n, Rank(rank_out as u32));
    install_secret::<N>(&mut sk_out, rank_out, sp_out);
    let mut skp_in = module.glwe_secret_prepared_alloc(Rank(rank_in as u32));
    module.glwe_secret_prepare(&mut skp_in, &sk_in);
    let mut skp_out = module.glwe_secret_prepared_alloc(Rank(rank_out as u32));
    module.glwe_secret_prepare(&mut skp_out, &sk_out);

    let mut karena = Buf::<KA>([0i64; KA]);
    let mut ksk = GLWESwitchingKey::alloc(n, b, TorusPrecision(KKSK as u32), Rank(rank_in as u32), Rank(rank_out as u32), Dnum(DNUM as u32), Dsize(DSIZE as u32));
    let noise0 = NoiseInfos { k: KKSK, sigma: 0.0, bound: 0.0 };
    let (mut xe, mut xa) = (source(3), source(4));
    set_arena(karena.bytes().as_ptr());
    {
        let need = module.glwe_switching_key_encrypt_sk_tmp_bytes(&ksk);
        assert!(need + 64 <= 8 * KA, "GRID ERROR: key arena");
        let scratch: &mut Scratch<Probe> = Scratch::<Probe>::from_bytes(&mut karena.bytes_mut()[..need + 64]);
        module.glwe_switching_key_encrypt_sk(&mut ksk, &sk_in, &sk_out, &noise0, &mut xe, &mut xa, scratch);
    }
    let mut kskp = module.glwe_switching_key_prepared_alloc_from_infos(&ksk);
    {
        let need = module.glwe_switching_key_prepare_tmp_bytes(&ksk);
        assert!(need + 64 <= 8 * KA, "GRID ERROR: key arena (prepare)");
        let scratch: &mut Scratch<Probe> = Scratch::<Probe>::from_bytes(&mut karena.bytes_mut()[..need + 64]);
        module.glwe_switching_key_prepare(&mut kskp, &ksk, scratch);
    }

    // input ciphertext: every limb a symbolic normalised digit
    let kin = if IN_PLACE { KOUT } else { KIN };
    let mut ct = GLWE::alloc(n, b, TorusPrecision(kin as u32), Rank(rank_in as u32));
    {
        // a fixed digit pattern with `nsym` symbolic words spread over columns and limbs (all symbolic when nsym >= len)
        let h = 1i64 << (B - 1);
        let raw = ct.data_mut().raw_mut();
        let len = raw.len();
        let mut s = 0x1234_5678_9abc_def1u64;
        let mut i = 0;
        while i < len {
            s = s.wrapping_mul(6364136223846793005).wrapping_add(1442695040888963407);
            raw[i] = (((s >> 20) & ((1u64 << B) - 1)) as i64) - h;
            i += 1;
        }
        let mut t = 0;
        while t < nsym && t < len {
            let d = vsym::i64();
            vsym::assume(d >= -h && d < h);
            raw[if nsym >= len { t } else { (t * 11 + 5) % len }] = d;
            t += 1;
        }
    }
    let size_in = kin.div_ceil(B);
    // reference phase first (decrypt under s_in)
    let mut pt_in = GLWEPlaintext::alloc(n, b, TorusPrecision(kin as u32));
    {
        let need = module.glwe_decrypt_tmp_bytes(&ct);
        assert!(need + 64 <= 8 * KA, "GRID ERROR: key arena (decrypt)");
        let scratch: &mut Scratch<Probe> = Scratch::<Probe>::from_bytes(&mut karena.bytes_mut()[..need + 64]);
        module.glwe_decrypt(&ct, &mut pt_in, &skp_in, scratch);
    }

    let mut out = GLWE::alloc(n, b, TorusPrecision(KOUT as u32), Rank(rank_out as u32));
    let size_out = KOUT.div_ceil(B);
    let mut sarena = Buf::<SA>::sym();
    set_arena(sarena.bytes().as_ptr());
    if IN_PLACE {
        assert!(rank_in == rank_out, "GRID ERROR: in-place needs equal ranks");
        let need = module.glwe_keyswitch_tmp_bytes(&ct, &ct, &ksk);
        assert!(need <= 8 * SA, "GRID ERROR: scratch arena");
        let scratch: &mut Scratch<Probe> = Scratch::<Probe>::from_bytes(&mut sarena.bytes_mut()[..need]);
        module.glwe_keyswitch_assign(&mut ct, &kskp, scratch);
    } else {
        {
            let raw = out.data_mut().raw_mut();
            let mut i = 0;
            while i < raw.len() {
                raw[i] = vsym::i64();
                i += 1;
            }
        }
        let need = module.glwe_keyswitch_tmp_bytes(&out, &ct, &ksk);
        assert!(need <= 8 * SA, "GRID ERROR: scratch arena");
        let scratch: &mut Scratch<Probe> = Scratch::<Probe>::from_bytes(&mut sarena.bytes_mut()[..need]);
        module.glwe_keyswitch(&mut out, &ct, &kskp, scratch);
    }
    let res: &GLWE<Vec<u8>> = if IN_PLACE { &ct } else { &out };
    {
        let h = 1i64 << (B - 1);
        let raw = res.data().raw();
        let mut i = 0;
        while i < raw.len() {
            assert!(raw[i] >= -h && raw[i] < h, "key-switched ciphertext limb not a normalised digit");
            i += 1;
        }
    }
    let mut pt_out = GLWEPlaintext::alloc(n, b, TorusPrecision(KOUT as u32));
    set_arena(karena.bytes().as_ptr());
    {
        let need = module.glwe_decrypt_tmp_bytes(res);
        assert!(need + 64 <= 8 * KA, "GRID ERROR: key arena (decrypt out)");
        let scratch: &mut Scratch<Probe> = Scratch::<Probe>::from_bytes(&mut karena.bytes_mut()[..need + 64]);
        module.glwe_decrypt(res, &mut pt_out, &skp_out, scratch);
    }
    // compare phases: value(pt_out) at size_out*B bits vs value(pt_in) at size_in*B bits
    let (ib, ob) = (size_in * B, size_out * B);
    let mut i = 0;
    while i < N {
        let (mut a, mut r) = ([0i64; 8], [0i64; 8]);
        let mut j = 0;
        while j < size_in {
            a[j] = pt_in.data().at(0, j)[i];
            j += 1;
        }
        let mut j = 0;
        while j < size_out {
            r[j] = pt_out.data().at(0, j)[i];
            j += 1;
        }
        let (av, rv) = (horner_w256(&a[..size_in], B), horner_w256(&r[..size_out], B));
        if IN_PLACE {
            // reference was taken before the in-place call on the same object: same widths
            assert!(torus_rel(rv, ob, av, ib, 0), "phase under the target key differs from the phase under the source key");
        } else {
            assert!(torus_rel(rv, ob, av, ib, 0), "phase under the target key differs from the phase under the source key");
        }
        i += 1;
    }
    core::mem::forget((xe, xa));
    vsym::reached();
}

#![allow(clippy::all)]
#![allow(unused)]
pub mod spec;
pub mod vz;
pub mod stubs;
pub mod c01_lwe;
pub mod c02;
pub mod c19;
pub mod c01_glwe;
pub mod c03_ks;
pub mod c04_ep;
pub mod c19_enc;
pub mod core_frame;
pub mod c18_core;
pub mod probe_be;
pub mod probe_full;
pub use poulpy_cpu_ref::reference;
pub mod generated;

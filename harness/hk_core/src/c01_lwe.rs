//! C01 (LWE part, end to end through the real code): `lwe_encrypt_sk` followed by `lwe_decrypt`
//! on a marker module (neither touches the DFT).  LWE dimension 2, secret concrete (enumerated
//! ternary patterns, so every product is constant x symbolic), message limbs symbolic (normalised
//! digits), mask words symbolic (stub of `Source::next_u64n`), error symbolic within the
//! configured bound (stub of `znx_add_normal_f64_ref`), scratch of EXACTLY the declared size with
//! symbolic contents (C12).
//! Statement decided: decrypt(encrypt(m)) - m, as a torus element at the ciphertext precision,
//! is e * 2^-k with |e| <= bound (the plaintext has the ciphertext's layout here, so there is no
//! additional rounding unit); under Kani additionally e is exactly the sampler's value (the
//! error is injected once, at 2^-k: C06) and the mask digits are the stream's words in range.
use crate::spec::*;
use crate::stubs::*;
use crate::vz::*;
use poulpy_core::layouts::{Base2K, Degree, LWEInfos, LWEPlaintext, LWESecret, TorusPrecision, LWE};
use poulpy_core::{LWEDecrypt, LWEEncryptSk};
use poulpy_cpu_ref::FFT64Ref;
use poulpy_hal::api::ScratchFromBytes;
use poulpy_hal::layouts::{Module, NoiseInfos, Scratch, ZnxView, ZnxViewMut};

pub fn lwe_roundtrip<const B: usize, const K: usize, const PS: usize>(s0: i64, s1: i64) {
    let module: Module<FFT64Ref> = Module::<FFT64Ref>::new_marker(1);
    let n_lwe = 2usize;
    let size = K.div_ceil(B);
    let mut ct = LWE::alloc(Degree(n_lwe as u32), Base2K(B as u32), TorusPrecision(K as u32));
    // prior ciphertext content arbitrary
    {
        let raw = ct.data_mut().raw_mut();
        let mut i = 0;
        while i < raw.len() {
            raw[i] = vsym::i64();
            i += 1;
        }
    }
    // plaintext with PS limbs (PS <= size): symbolic normalised digits
    let mut pt = LWEPlaintext::alloc(Base2K(B as u32), TorusPrecision((PS * B) as u32));
    let mut m = [0i64; 4];
    {
        let h = 1i64 << (B - 1);
        let mut j = 0;
        while j < PS {
            let d = vsym::i64();
            vsym::assume(d >= -h && d < h);
            pt.data_mut().at_mut(0, j)[0] = d;
            m[j] = d;
            j += 1;
        }
    }
    let mut sk = LWESecret::alloc(Degree(n_lwe as u32));
    {
        let r = sk.verif_data_mut().at_mut(0, 0);
        r[0] = s0;
        r[1] = s1;
    }
    let infos = NoiseInfos { k: K, sigma: 3.2, bound: 19.2 };
    let (mut xe, mut xa) = (source(1), source(2));
    // exact-size scratch, symbolic contents
    let bytes = module.lwe_encrypt_sk_tmp_bytes(&ct).max(module.lwe_decrypt_tmp_bytes(&ct));
    let mut arena = Buf::<32>::sym();
    assert!(bytes <= 256, "GRID ERROR: arena");
    set_arena(arena.bytes().as_ptr());
    {
        let enc_bytes = module.lwe_encrypt_sk_tmp_bytes(&ct);
        let scratch: &mut Scratch<FFT64Ref> = Scratch::<FFT64Ref>::from_bytes(&mut arena.bytes_mut()[..enc_bytes]);
        module.lwe_encrypt_sk(&mut ct, &pt, &sk, &infos, &mut xe, &mut xa, scratch);
    }
    // mask: uniform digits
    {
        let h = 1i64 << (B - 1);
        let mut j = 0;
        while j < size {
            let row = ct.data().at(0, j);
            assert!(row[1] >= -h && row[1] < h && row[2] >= -h && row[2] < h, "mask digit out of range");
            assert!(in_digit_range(B, row[0]), "body limb not normalised");
            j += 1;
        }
    }
    let mut out = LWEPlaintext::alloc(Base2K(B as u32), TorusPrecision(K as u32));
    {
        let dec_bytes = module.lwe_decrypt_tmp_bytes(&ct);
        let scratch: &mut Scratch<FFT64Ref> = Scratch::<FFT64Ref>::from_bytes(&mut arena.bytes_mut()[..dec_bytes]);
        module.lwe_decrypt(&ct, &mut out, &sk, scratch);
    }
    // torus comparison at size*B bits
    let mut o = [0i64; 4];
    let mut j = 0;
    while j < size {
        o[j] = out.data().at(0, j)[0];
        j += 1;
    }
    let bits = (size * B) as u32;
    let d = horner_w256(&o[..size], B).sub(horner_w256(&m[..size], B)).center(bits);
    // e sits on limb l = ceil(K/B)-1 = size-1 with scale 2^(size*B - K)
    let sh = (size * B - K) as u32;
    let lim = (19.2f64 * ((1u64 << sh) as f64)).round() as i64;
    let lo = W256::from_i64(-lim);
    let hi = W256::from_i64(lim);
    assert!(!d.sub(lo).is_neg() && !hi.sub(d).is_neg(), "decrypt(encrypt(m)) - m exceeds the configured error bound at 2^-k");
    #[cfg(kani)]
    unsafe {
        assert!(NOISE_CALLS == 1, "error sampler not called exactly once");
        assert!(d == W256::from_i64(NOISE_LAST[0]), "decryption error is not exactly the sampled error (placed at 2^-k)");
    }
    core::mem::forget((xe, xa));
    vsym::reached();
}

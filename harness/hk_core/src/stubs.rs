//! Randomness and formatting stubs shared by the poulpy-core harnesses (each is part of the claim).
use poulpy_hal::source::Source;

/// `Source::next_u64n(max, mask)` -> one arbitrary word masked by the caller's mask.
pub fn next_u64n_stub(_s: &mut Source, max: u64, mask: u64) -> u64 {
    let x = vsym::u64() & mask;
    assert!(x < max, "next_u64n would reject a draw");
    x
}

pub static mut NOISE_CALLS: usize = 0;
pub static mut NOISE_LAST: [i64; 4] = [0; 4];

/// `znx_add_normal_f64_ref(res, sigma, bound, source)` -> adds an arbitrary integer e with
/// |e| <= round(bound) to every coefficient and records it.
pub fn add_normal_stub(res: &mut [i64], _sigma: f64, bound: f64, _source: &mut Source) {
    let lim = bound.round() as i64;
    let mut i = 0;
    while i < res.len() {
        let e = vsym::i64();
        vsym::assume(e >= -lim && e <= lim);
        res[i] = res[i].wrapping_add(e);
        unsafe {
            if i < 4 {
                NOISE_LAST[i] = e;
            }
        }
        i += 1;
    }
    unsafe { NOISE_CALLS += 1 };
}

pub fn exp2_stub(x: f64) -> f64 {
    let e = x as u32;
    assert!(x == e as f64 && e < 63, "exp2 called on a non-integer or out-of-range exponent");
    (1u64 << e) as f64
}

pub fn fmt_stub(_args: core::fmt::Arguments<'_>) -> String {
    String::new()
}

#[cfg(kani)]
pub fn source(_seed: u8) -> Source {
    unsafe { core::mem::zeroed() }
}
#[cfg(not(kani))]
pub fn source(seed: u8) -> Source {
    Source::new([seed; 32])
}

/// `f64::log2`, only reached from the sanity assertion `ceil(log2(bound)) < 64` of the noise
/// kernels; the harnesses use bound = 19.2, log2(19.2) = 4.263...
pub fn log2_stub(x: f64) -> f64 {
    assert!(x >= 0.0);
    4.263034405833794
}

/// Base address of the harness' scratch arena (64-byte aligned: `Buf` is `repr(align(64))`).
pub static mut ARENA_BASE: *const u8 = core::ptr::null();

pub fn set_arena(base: *const u8) {
    assert!(base as usize % 64 == 0, "harness arena not 64-byte aligned");
    unsafe { ARENA_BASE = base };
}

/// Stand-in for the private `poulpy_cpu_ref::hal_defaults::scratch::take_slice_aligned`: identical
/// body, except that the padding to the next 64-byte boundary is computed from the *offset of the
/// window inside the (64-byte aligned) harness arena* instead of from the integer value of the
/// pointer.  Same function on the harness' arenas, but it keeps every scratch offset a constant for
/// the symbolic engine (the integer address of an object is a free variable in CBMC, which turns
/// every scratch access into a symbolic-index array access).  The real function is decided on its
/// own by the C12 `scratch.take_slice*` harnesses.
pub fn take_slice_aligned_stub(data: &mut [u8], take_len: usize) -> (&mut [u8], &mut [u8]) {
    let ptr: *mut u8 = data.as_mut_ptr();
    let self_len: usize = data.len();
    let off = unsafe { (ptr as *const u8).offset_from(ARENA_BASE) } as usize;
    let aligned_offset: usize = (64 - off % 64) % 64;
    let aligned_len: usize = self_len.saturating_sub(aligned_offset);
    if let Some(rem_len) = aligned_len.checked_sub(take_len) {
        unsafe {
            let rem_ptr: *mut u8 = ptr.add(aligned_offset).add(take_len);
            let rem_slice: &mut [u8] = &mut *std::ptr::slice_from_raw_parts_mut(rem_ptr, rem_len);
            let take_slice: &mut [u8] = &mut *std::ptr::slice_from_raw_parts_mut(ptr.add(aligned_offset), take_len);
            (take_slice, rem_slice)
        }
    } else {
        panic!("Attempted to take from scratch with too few aligned bytes left");
    }
}

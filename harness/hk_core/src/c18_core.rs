//! C18 (poulpy-core wrappers): `read_from` of GLWE / LWE / GLWECompressed on arbitrary streams.
//! Receiver small and concrete, every stream byte symbolic, stream length concrete per instance.
//! Err => ALL metadata of the receiver unchanged (the trait's documented contract: "metadata
//! fields are updated atomically after a successful read"); Ok => dimensions consistent with
//! the buffer; never a panic.
use poulpy_core::layouts::compressed::{GGLWECompressed, GGLWECompressedSeed, GGSWCompressed, GGSWCompressedSeed, LWECompressed};
use poulpy_core::layouts::{Base2K, Degree, Dnum, Dsize, GGLWEInfos, GGSWInfos, GLWECompressed, GLWEInfos, LWEInfos, Rank, TorusPrecision, GLWE, LWE};
use poulpy_hal::layouts::{ReaderFrom, ZnxInfos};

fn exact(dims: &[usize]) -> u128 {
    let mut acc: u128 = 8;
    for d in dims {
        acc = acc.saturating_mul(*d as u128);
    }
    acc
}

/// WHICH: 0 GLWE (n=2, rank 1, 2 limbs) 1 LWE (n=2, 2 limbs) 2 GLWECompressed (n=2, rank 1, 2 limbs)
/// 3 GGSWCompressed / 4 GGLWECompressed (n=2, rank 1, one row, 2 limbs; header truncations only)
pub fn wrapper_read<const WHICH: usize, const SLEN: usize>() {
    let stream = vsym::arr_u8::<SLEN>();
    let mut rd: &[u8] = &stream[..];
    match WHICH {
        0 => {
            let mut g = GLWE::alloc(Degree(2), Base2K(17), TorusPrecision(34), Rank(1));
            let (b0, n0, c0, s0, len) = (g.base2k(), g.data().n(), g.data().cols(), g.data().size(), g.data().data.len());
            let r = g.read_from(&mut rd);
            let ok = r.is_ok();
            core::mem::forget(r);
            if !ok {
                assert!(g.base2k() == b0 && g.data().n() == n0 && g.data().cols() == c0 && g.data().size() == s0, "GLWE::read_from failed but changed the receiver's metadata");
            } else {
                assert!(exact(&[g.data().n(), g.data().cols(), g.data().max_size()]) <= len as u128 && g.data().size() <= g.data().max_size(), "GLWE::read_from Ok with dimensions exceeding the buffer");
            }
        }
        1 => {
            let mut g = LWE::alloc(Degree(2), Base2K(17), TorusPrecision(34));
            let (b0, n0, s0, len) = (g.base2k(), g.data().n(), g.data().size(), g.data().data.len());
            let r = g.read_from(&mut rd);
            let ok = r.is_ok();
            core::mem::forget(r);
            if !ok {
                assert!(g.base2k() == b0 && g.data().n() == n0 && g.data().size() == s0, "LWE::read_from failed but changed the receiver's metadata");
            } else {
                assert!(exact(&[g.data().n(), g.data().cols(), g.data().max_size()]) <= len as u128, "LWE::read_from Ok with dimensions exceeding the buffer");
            }
        }
        3 => {
            let mut g = GGSWCompressed::alloc(Degree(2), Base2K(17), TorusPrecision(34), Rank(1), Dnum(1), Dsize(1));
            let (b0, d0, r0, sl0, s0) = (g.base2k(), g.dsize(), g.rank(), g.seed().len(), g.size());
            let r = g.read_from(&mut rd);
            let ok = r.is_ok();
            core::mem::forget(r);
            if !ok {
                assert!(g.base2k() == b0 && g.dsize() == d0 && g.rank() == r0 && g.seed().len() == sl0 && g.size() == s0, "GGSWCompressed::read_from failed but changed the receiver's metadata");
            }
        }
        4 => {
            let mut g = GGLWECompressed::alloc(Degree(2), Base2K(17), TorusPrecision(34), Rank(1), Rank(1), Dnum(1), Dsize(1));
            let (b0, d0, r0, sl0, s0) = (g.base2k(), g.dsize(), g.rank_out(), g.seed().len(), g.size());
            let r = g.read_from(&mut rd);
            let ok = r.is_ok();
            core::mem::forget(r);
            if !ok {
                assert!(g.base2k() == b0 && g.dsize() == d0 && g.rank_out() == r0 && g.seed().len() == sl0 && g.size() == s0, "GGLWECompressed::read_from failed but changed the receiver's metadata");
            }
        }
        5 => {
            let mut g = LWECompressed::alloc(Base2K(17), TorusPrecision(34));
            let b0 = g.base2k();
            let r = g.read_from(&mut rd);
            let ok = r.is_ok();
            core::mem::forget(r);
            if !ok {
                assert!(g.base2k() == b0, "LWECompressed::read_from failed but changed the receiver's metadata");
            }
        }
        _ => {
            let mut g = GLWECompressed::alloc(Degree(2), Base2K(17), TorusPrecision(34), Rank(1));
            let (b0, r0, s0) = (g.base2k(), g.rank(), g.verif_data().size());
            let r = g.read_from(&mut rd);
            let ok = r.is_ok();
            core::mem::forget(r);
            if !ok {
                assert!(g.base2k() == b0 && g.rank() == r0 && g.verif_data().size() == s0, "GLWECompressed::read_from failed but changed the receiver's metadata");
            }
        }
    }
    vsym::reached();
}

//! C09 (+C11 frame assertions): coefficient-domain ring operations of
//! `poulpy-cpu-ref/src/reference/vec_znx/*.rs` against an index-level model of
//! Z[X]/(X^N+1).  Shapes (N, limb counts, rotation amount) concrete per instance;
//! coefficients, prior output contents and Galois elements symbolic.
//! Value domain |x| < 2^62 for add/sub (the reference uses plain `+`/`-`, which panics on
//! overflow in the dev profile and wraps in release; inside the domain both agree).
use crate::c08_vec::KernAll;
use crate::vz::*;
use poulpy_cpu_ref::reference::vec_znx::*;

pub const DOM: u32 = 62;
const COLS: usize = 3;

fn cols3(sel: usize) -> (usize, usize, usize) {
    // (res_col, a_col, b_col): pairwise distinct by default so that a swapped index is visible
    match sel {
        0 => (1, 0, 2),
        1 => (2, 1, 0),
        2 => (0, 2, 1),
        3 => (0, 0, 0),
        _ => (1, 2, 2),
    }
}

/// OP: 0 add_into, 1 sub (a-b), 2 add_assign, 3 sub_assign (res-a), 4 sub_negate_assign (a-res),
///     5 negate, 6 negate_assign, 7 copy, 8 zero
pub fn linear<Z: KernAll, const N: usize, const RS: usize, const AS: usize, const BS: usize, const LR: usize, const LA: usize, const LB: usize, const OP: usize>(sel: usize) {
    let (rc, ac, bc) = cols3(sel);
    let a = Buf::<LA>::sym_mag(DOM);
    let b = Buf::<LB>::sym_mag(DOM);
    let before = if OP == 2 || OP == 3 || OP == 4 || OP == 6 { Buf::<LR>::sym_mag(DOM) } else { Buf::<LR>::sym() };
    let mut res = before;
    {
        let mut r = res.vec_mut(N, COLS, RS, RS + 1);
        let av = a.vec(N, COLS, AS, AS);
        let bv = b.vec(N, COLS, BS, BS);
        match OP {
            0 => vec_znx_add_into::<_, _, _, Z>(&mut r, rc, &av, ac, &bv, bc),
            1 => vec_znx_sub::<_, _, _, Z>(&mut r, rc, &av, ac, &bv, bc),
            2 => vec_znx_add_assign::<_, _, Z>(&mut r, rc, &av, ac),
            3 => vec_znx_sub_assign::<_, _, Z>(&mut r, rc, &av, ac),
            4 => vec_znx_sub_negate_assign::<_, _, Z>(&mut r, rc, &av, ac),
            5 => vec_znx_negate::<_, _, Z>(&mut r, rc, &av, ac),
            6 => vec_znx_negate_assign::<_, Z>(&mut r, rc),
            7 => vec_znx_copy::<_, _, Z>(&mut r, rc, &av, ac),
            _ => vec_znx_zero::<_, Z>(&mut r, rc),
        }
    }
    let ga = |j: usize, i: usize| if j < AS { a.at(N, COLS, ac, j, i) } else { 0 };
    let gb = |j: usize, i: usize| if j < BS { b.at(N, COLS, bc, j, i) } else { 0 };
    let gr = |j: usize, i: usize| before.at(N, COLS, rc, j, i);
    assert_col(&before, &res, N, COLS, rc, RS, |j, i| match OP {
        0 => ga(j, i).wrapping_add(gb(j, i)),
        1 => ga(j, i).wrapping_sub(gb(j, i)),
        2 => gr(j, i).wrapping_add(ga(j, i)),
        3 => gr(j, i).wrapping_sub(ga(j, i)),
        4 => ga(j, i).wrapping_sub(gr(j, i)),
        5 => ga(j, i).wrapping_neg(),
        6 => gr(j, i).wrapping_neg(),
        7 => ga(j, i),
        _ => 0,
    });
    vsym::reached();
}

/// OP: 0 add_scalar_into, 1 sub_scalar (b - a at limb), 2 add_scalar_assign, 3 sub_scalar_assign
pub fn scalar<Z: KernAll, const N: usize, const RS: usize, const BS: usize, const LR: usize, const LS: usize, const LB: usize, const OP: usize>(limb: usize, sel: usize) {
    let (rc, ac, bc) = cols3(sel);
    let a = Buf::<LS>::sym_mag(DOM); // ScalarZnx with COLS columns
    let b = Buf::<LB>::sym_mag(DOM);
    let before = if OP >= 2 { Buf::<LR>::sym_mag(DOM) } else { Buf::<LR>::sym() };
    let mut res = before;
    {
        let mut r = res.vec_mut(N, COLS, RS, RS + 1);
        let av = a.scalar(N, COLS);
        let bv = b.vec(N, COLS, BS, BS);
        match OP {
            0 => vec_znx_add_scalar_into::<_, _, _, Z>(&mut r, rc, &av, ac, &bv, bc, limb),
            1 => vec_znx_sub_scalar::<_, _, _, Z>(&mut r, rc, &av, ac, &bv, bc, limb),
            2 => vec_znx_add_scalar_assign::<_, _, Z>(&mut r, rc, limb, &av, ac),
            _ => vec_znx_sub_scalar_assign::<_, _, Z>(&mut r, rc, limb, &av, ac),
        }
    }
    let sa = |i: usize| a.0[N * ac + i];
    let gb = |j: usize, i: usize| if j < BS { b.at(N, COLS, bc, j, i) } else { 0 };
    let gr = |j: usize, i: usize| before.at(N, COLS, rc, j, i);
    assert_col(&before, &res, N, COLS, rc, RS, |j, i| match OP {
        0 => if j == limb { gb(j, i).wrapping_add(sa(i)) } else { gb(j, i) },
        1 => if j == limb { gb(j, i).wrapping_sub(sa(i)) } else { gb(j, i) },
        2 => if j == limb { gr(j, i).wrapping_add(sa(i)) } else { gr(j, i) },
        _ => if j == limb { gr(j, i).wrapping_sub(sa(i)) } else { gr(j, i) },
    });
    vsym::reached();
}

/// OP: 0 rotate, 1 rotate_assign, 2 mul_xp_minus_one, 3 mul_xp_minus_one_assign
pub fn rotate<Z: KernAll, const N: usize, const RS: usize, const AS: usize, const LR: usize, const LA: usize, const OP: usize>(p: i64, sel: usize) {
    let (rc, ac, _) = cols3(sel);
    let a = Buf::<LA>::sym_mag(DOM);
    let before = if OP == 1 || OP == 3 { Buf::<LR>::sym_mag(DOM) } else { Buf::<LR>::sym() };
    let mut res = before;
    let mut tmp = vsym::arr_i64::<N>();
    {
        let mut r = res.vec_mut(N, COLS, RS, RS + 1);
        let av = a.vec(N, COLS, AS, AS);
        match OP {
            0 => vec_znx_rotate::<_, _, Z>(p, &mut r, rc, &av, ac),
            1 => vec_znx_rotate_assign::<_, Z>(p, &mut r, rc, &mut tmp),
            2 => vec_znx_mul_xp_minus_one::<_, _, Z>(p, &mut r, rc, &av, ac),
            _ => vec_znx_mul_xp_minus_one_assign::<_, Z>(p, &mut r, rc, &mut tmp),
        }
    }
    assert_col(&before, &res, N, COLS, rc, RS, |j, i| {
        let src = |e: usize| match OP {
            0 | 2 => if j < AS { a.at(N, COLS, ac, j, e) } else { 0 },
            _ => before.at(N, COLS, rc, j, e),
        };
        let r = rot_coeff(N, p, i, &src);
        match OP {
            0 | 1 => r,
            _ => r.wrapping_sub(src(i)),
        }
    });
    vsym::reached();
}

/// OP: 0 automorphism, 1 automorphism_assign.  Galois element symbolic: every odd g with |g| < 2^20.
pub fn automorphism<Z: KernAll, const N: usize, const RS: usize, const AS: usize, const LR: usize, const LA: usize, const OP: usize>(sel: usize) {
    let (rc, ac, _) = cols3(sel);
    let g = vsym::i64();
    vsym::assume(g > -(1 << 20) && g < (1 << 20) && (g & 1) == 1);
    let a = Buf::<LA>::sym_mag(DOM);
    let before = if OP == 1 { Buf::<LR>::sym_mag(DOM) } else { Buf::<LR>::sym() };
    let mut res = before;
    let mut tmp = vsym::arr_i64::<N>();
    {
        let mut r = res.vec_mut(N, COLS, RS, RS + 1);
        let av = a.vec(N, COLS, AS, AS);
        match OP {
            0 => vec_znx_automorphism::<_, _, Z>(g, &mut r, rc, &av, ac),
            _ => vec_znx_automorphism_assign::<_, Z>(g, &mut r, rc, &mut tmp),
        }
    }
    assert_col(&before, &res, N, COLS, rc, RS, |j, i| {
        let src = |e: usize| match OP {
            0 => if j < AS { a.at(N, COLS, ac, j, e) } else { 0 },
            _ => before.at(N, COLS, rc, j, e),
        };
        auto_coeff(N, g, i, &src)
    });
    vsym::reached();
}

/// `vec_znx_switch_ring`: NIN > NOUT folds (res_j = a_{j*gap}), NIN < NOUT embeds X -> X^gap.
pub fn switch_ring<Z: KernAll, const NIN: usize, const NOUT: usize, const RS: usize, const AS: usize, const LR: usize, const LA: usize>(sel: usize) {
    let (rc, ac, _) = cols3(sel);
    let a = Buf::<LA>::sym();
    let before = Buf::<LR>::sym();
    let mut res = before;
    {
        let mut r = res.vec_mut(NOUT, COLS, RS, RS + 1);
        let av = a.vec(NIN, COLS, AS, AS);
        vec_znx_switch_ring::<_, _, Z>(&mut r, rc, &av, ac);
    }
    assert_col(&before, &res, NOUT, COLS, rc, RS, |j, i| {
        if j >= AS {
            0
        } else if NIN >= NOUT {
            a.at(NIN, COLS, ac, j, i * (NIN / NOUT))
        } else {
            let gap = NOUT / NIN;
            if i % gap == 0 { a.at(NIN, COLS, ac, j, i / gap) } else { 0 }
        }
    });
    vsym::reached();
}

/// `vec_znx_split_ring` into NIN/NOUT = 2 parts: part_i[j] = a[j*2 + i]; then (LAW) merging the
/// parts back with `vec_znx_merge_rings` returns the original.  MERGE=false checks the split only.
pub fn split_merge<Z: KernAll, const NIN: usize, const NOUT: usize, const S: usize, const LA: usize, const LP: usize, const MERGE: bool>() {
    // single column objects (cols = 1) for the parts to keep the instance small; a has 1 column
    let a = Buf::<LA>::sym_mag(DOM);
    let p0_before = Buf::<LP>::sym();
    let p1_before = Buf::<LP>::sym();
    let mut p0 = p0_before;
    let mut p1 = p1_before;
    let mut tmp = vsym::arr_i64::<NIN>();
    {
        let av = a.vec(NIN, 1, S, S);
        let mut parts = [p0.vec_mut(NOUT, 1, S, S), p1.vec_mut(NOUT, 1, S, S)];
        vec_znx_split_ring::<_, _, Z>(&mut parts, 0, &av, 0, &mut tmp);
    }
    let mut j = 0;
    while j < S {
        let mut i = 0;
        while i < NOUT {
            assert!(p0.at(NOUT, 1, 0, j, i) == a.at(NIN, 1, 0, j, 2 * i), "split_ring: part 0");
            assert!(p1.at(NOUT, 1, 0, j, i) == a.at(NIN, 1, 0, j, 2 * i + 1), "split_ring: part 1");
            i += 1;
        }
        j += 1;
    }
    if MERGE {
        let mut back = Buf::<LA>::sym();
        let mut tmp2 = vsym::arr_i64::<NIN>();
        {
            let parts = [p0.vec(NOUT, 1, S, S), p1.vec(NOUT, 1, S, S)];
            let mut r = back.vec_mut(NIN, 1, S, S);
            vec_znx_merge_rings::<_, _, Z>(&mut r, 0, &parts, 0, &mut tmp2);
        }
        let mut idx = 0;
        while idx < LA {
            assert!(back.0[idx] == a.0[idx], "merge_rings(split_ring(a)) != a");
            idx += 1;
        }
    }
    vsym::reached();
}

/// LAW: rotate(q) after rotate(p) equals rotate(p+q); automorphism(h) after automorphism(g)
/// equals automorphism(g*h); both on symbolic data through the real functions only (no oracle).
pub fn law_rotate<Z: KernAll, const N: usize, const L: usize>(p: i64, q: i64) {
    let a = Buf::<L>::sym_mag(DOM);
    let mut t = Buf::<L>::sym();
    let mut u = Buf::<L>::sym();
    let mut v = Buf::<L>::sym();
    {
        let av = a.vec(N, 1, 1, 1);
        let mut tv = t.vec_mut(N, 1, 1, 1);
        vec_znx_rotate::<_, _, Z>(p, &mut tv, 0, &av, 0);
    }
    {
        let tv = t.vec(N, 1, 1, 1);
        let mut uv = u.vec_mut(N, 1, 1, 1);
        vec_znx_rotate::<_, _, Z>(q, &mut uv, 0, &tv, 0);
    }
    {
        let av = a.vec(N, 1, 1, 1);
        let mut vv = v.vec_mut(N, 1, 1, 1);
        vec_znx_rotate::<_, _, Z>(p.wrapping_add(q), &mut vv, 0, &av, 0);
    }
    let mut i = 0;
    while i < L {
        assert!(u.0[i] == v.0[i], "rotate(q) o rotate(p) != rotate(p+q)");
        i += 1;
    }
    vsym::reached();
}

pub fn law_automorphism<Z: KernAll, const N: usize, const L: usize>() {
    let g = vsym::i64();
    let h = vsym::i64();
    vsym::assume(g > -(1 << 12) && g < (1 << 12) && (g & 1) == 1);
    vsym::assume(h > -(1 << 12) && h < (1 << 12) && (h & 1) == 1);
    let a = Buf::<L>::sym_mag(DOM);
    let mut t = Buf::<L>::sym();
    let mut u = Buf::<L>::sym();
    let mut v = Buf::<L>::sym();
    {
        let av = a.vec(N, 1, 1, 1);
        let mut tv = t.vec_mut(N, 1, 1, 1);
        vec_znx_automorphism::<_, _, Z>(g, &mut tv, 0, &av, 0);
    }
    {
        let tv = t.vec(N, 1, 1, 1);
        let mut uv = u.vec_mut(N, 1, 1, 1);
        vec_znx_automorphism::<_, _, Z>(h, &mut uv, 0, &tv, 0);
    }
    {
        let av = a.vec(N, 1, 1, 1);
        let mut vv = v.vec_mut(N, 1, 1, 1);
        vec_znx_automorphism::<_, _, Z>(g.wrapping_mul(h), &mut vv, 0, &av, 0);
    }
    let mut i = 0;
    while i < L {
        assert!(u.0[i] == v.0[i], "automorphism(h) o automorphism(g) != automorphism(g*h)");
        i += 1;
    }
    vsym::reached();
}

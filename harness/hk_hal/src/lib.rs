#![allow(clippy::all)]
#![allow(unused)]
pub mod spec;
pub mod vz;
pub mod c08_kernels;
pub mod c08_vec;
pub mod c08_enc;
pub mod c09;
pub mod c09_big;
pub mod probe_be;
pub mod c11_dft;
pub mod c18;
pub mod c12;
pub mod c17;
pub mod c06;
pub mod c03;
pub mod generated;

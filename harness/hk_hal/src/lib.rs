#![allow(clippy::all)]
#![allow(unused)]
pub mod spec;
pub mod c08_kernels;
pub mod generated;

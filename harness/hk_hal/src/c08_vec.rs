//! C08-A2 (+C11 frame assertions): vector-level normalisation and shifts of
//! `poulpy-cpu-ref/src/reference/vec_znx/{normalize,shift}.rs`, instantiated with `Z`.
//!
//! n = 1 (coefficient-wise code), 2 columns each with symbolic column index, the
//! result has one spare capacity limb (max_size = size+1) and fully symbolic prior
//! content.  Shapes (radices, limb counts, offset/shift) are concrete per instance.
//!
//! Oracle (torus value, exact integers in wrapping i128, valid while
//! max(res_bits, a_bits - off) <= 126):
//!   A = sum_j a_j 2^((AS-1-j)*ab) (un-reduced), R likewise;  s = a_bits - off - res_bits
//!   s <= 0 : R == A * 2^(-s)            (mod 2^res_bits)      -- exact
//!   s  > 0 : |R * 2^s - A| <= 2^s       (mod 2^(res_bits+s))  -- one unit of the last limb
use crate::spec::*;
use crate::vz::*;
use poulpy_cpu_ref::reference::vec_znx::*;
use poulpy_cpu_ref::reference::znx::*;

pub const DOM: u32 = 61;

/// every kernel trait the vector-level reference functions need; implemented by the real
/// kernel sets `ZnxRef`, `FFT64Ref`, `NTT120Ref` (the driver names the type per instance)
pub trait KernAll:
    ZnxZero
    + ZnxCopy
    + ZnxAdd
    + ZnxAddAssign
    + ZnxSub
    + ZnxSubAssign
    + ZnxSubNegateAssign
    + ZnxNegate
    + ZnxNegateAssign
    + ZnxRotate
    + ZnxAutomorphism
    + ZnxSwitchRing
    + ZnxMulPowerOfTwo
    + ZnxMulAddPowerOfTwo
    + ZnxMulPowerOfTwoAssign
    + ZnxNormalizeFirstStepCarryOnly
    + ZnxNormalizeMiddleStepCarryOnly
    + ZnxNormalizeFirstStep
    + ZnxNormalizeMiddleStep
    + ZnxNormalizeFinalStep
    + ZnxNormalizeFirstStepAssign
    + ZnxNormalizeMiddleStepAssign
    + ZnxNormalizeFinalStepAssign
    + ZnxNormalizeMiddleStepSub
    + ZnxNormalizeFinalStepSub
    + ZnxExtractDigitAddMul
    + ZnxNormalizeDigit
{
}
impl<T> KernAll for T where
    T: ZnxZero
        + ZnxCopy
        + ZnxAdd
        + ZnxAddAssign
        + ZnxSub
        + ZnxSubAssign
        + ZnxSubNegateAssign
        + ZnxNegate
        + ZnxNegateAssign
        + ZnxRotate
        + ZnxAutomorphism
        + ZnxSwitchRing
        + ZnxMulPowerOfTwo
        + ZnxMulAddPowerOfTwo
        + ZnxMulPowerOfTwoAssign
        + ZnxNormalizeFirstStepCarryOnly
        + ZnxNormalizeMiddleStepCarryOnly
        + ZnxNormalizeFirstStep
        + ZnxNormalizeMiddleStep
        + ZnxNormalizeFinalStep
        + ZnxNormalizeFirstStepAssign
        + ZnxNormalizeMiddleStepAssign
        + ZnxNormalizeFinalStepAssign
        + ZnxNormalizeMiddleStepSub
        + ZnxNormalizeFinalStepSub
        + ZnxExtractDigitAddMul
        + ZnxNormalizeDigit
{
}

/// Column indices: concrete per instance (a symbolic pair costs 3x solver time, measured);
/// `cols = 9` asks for the symbolic pair, used by a few instances.
fn two_cols(cols: usize) -> (usize, usize) {
    if cols == 9 {
        let rc = vsym::usize();
        let ac = vsym::usize();
        vsym::assume(rc < 2 && ac < 2);
        (rc, ac)
    } else {
        (cols / 2, cols % 2)
    }
}

/// `vec_znx_normalize` (inter- and cross-radix).  L_A = 2*AS, L_R = 2*(RS+1).
pub fn normalize<Z: KernAll, const RB: usize, const AB: usize, const RS: usize, const AS: usize, const LR: usize, const LA: usize>(off: i64, a_normalized: bool, cols: usize) {
    let (rc, ac) = two_cols(cols);
    let a = if a_normalized { Buf::<LA>::sym_range(-(1i64 << (AB - 1)), (1i64 << (AB - 1)) - 1) } else { Buf::<LA>::sym_mag(DOM) };
    let before = Buf::<LR>::sym();
    let mut res = before;
    let mut carry = vsym::arr_i64::<3>(); // scratch contents are arbitrary (C12)
    {
        let mut r = res.vec_mut(1, 2, RS, RS + 1);
        let av = a.vec(1, 2, AS, AS);
        vec_znx_normalize::<_, _, Z>(&mut r, RB, off, rc, &av, AB, ac, &mut carry);
    }
    assert_frame(&before, &res, 1, 2, rc, RS);
    let al: [i64; 8] = column(&a, 2, ac, AS);
    let rl: [i64; 8] = column(&res, 2, rc, RS);
    let av = horner_w256(&al[..AS], AB);
    let rv = horner_w256(&rl[..RS], RB);
    assert!(torus_rel_any_rep(rv, RS * RB, av, AS * AB, off), "normalize: output is not input*2^offset within one unit of the last limb");
    if RB == AB {
        let mut j = 0;
        while j < RS {
            assert!(in_digit_range(RB, rl[j]), "normalize: output digit out of balanced range");
            j += 1;
        }
    }
    vsym::reached();
}

/// shift family, MODE: 0 lsh(overwrite) 1 lsh(add) 2 lsh_sub 3 rsh(overwrite) 4 rsh(add) 5 rsh_sub
pub fn shift<Z: KernAll, const B: usize, const RS: usize, const AS: usize, const LR: usize, const LA: usize, const MODE: usize>(k: usize, cols: usize) {
    let (rc, ac) = two_cols(cols);
    let a = Buf::<LA>::sym_mag(DOM);
    let accumulate = MODE != 0 && MODE != 3;
    let before = if accumulate { Buf::<LR>::sym_mag(DOM) } else { Buf::<LR>::sym() };
    let mut res = before;
    let mut carry = vsym::arr_i64::<2>(); // scratch contents are arbitrary (C12)
    {
        let mut r = res.vec_mut(1, 2, RS, RS + 1);
        let av = a.vec(1, 2, AS, AS);
        match MODE {
            0 => vec_znx_lsh::<_, _, Z, true>(B, k, &mut r, rc, &av, ac, &mut carry),
            1 => vec_znx_lsh::<_, _, Z, false>(B, k, &mut r, rc, &av, ac, &mut carry),
            2 => vec_znx_lsh_sub::<_, _, Z>(B, k, &mut r, rc, &av, ac, &mut carry),
            3 => vec_znx_rsh::<_, _, Z, true>(B, k, &mut r, rc, &av, ac, &mut carry),
            4 => vec_znx_rsh::<_, _, Z, false>(B, k, &mut r, rc, &av, ac, &mut carry),
            _ => vec_znx_rsh_sub::<_, _, Z>(B, k, &mut r, rc, &av, ac, &mut carry),
        }
    }
    assert_frame(&before, &res, 1, 2, rc, RS);
    let al: [i64; 8] = column(&a, 2, ac, AS);
    let rl: [i64; 8] = column(&res, 2, rc, RS);
    let bl: [i64; 8] = column(&before, 2, rc, RS);
    let av = horner_w256(&al[..AS], B);
    let rv = horner_w256(&rl[..RS], B);
    let bv = horner_w256(&bl[..RS], B);
    let off: i64 = if MODE < 3 { k as i64 } else { -(k as i64) };
    let delta = match MODE {
        0 | 3 => rv,
        1 | 4 => rv.sub(bv),
        _ => bv.sub(rv),
    };
    assert!(torus_rel_any_rep(delta, RS * B, av, AS * B, off), "shift: result is not a*2^(+-k) within one unit of the last limb");
    if !accumulate {
        let mut j = 0;
        while j < RS {
            assert!(in_digit_range(B, rl[j]), "shift: output digit out of balanced range");
            j += 1;
        }
    }
    vsym::reached();
}

/// in-place forms: MODE 0 = lsh_assign, 1 = rsh_assign, 2 = normalize_assign
pub fn shift_assign<Z: KernAll, const B: usize, const RS: usize, const LR: usize, const MODE: usize>(k: usize, cols: usize) {
    let (rc, _) = two_cols(cols);
    // active limbs in the headroom domain, spare capacity limb arbitrary
    let before = Buf::<LR>::sym_mag(DOM);
    let mut res = before;
    let mut tmp = vsym::arr_i64::<2>(); // scratch contents are arbitrary (C12)
    {
        let mut r = res.vec_mut(1, 2, RS, RS + 1);
        match MODE {
            0 => vec_znx_lsh_assign::<_, Z>(B, k, &mut r, rc, &mut tmp),
            1 => vec_znx_rsh_assign::<_, Z>(B, k, &mut r, rc, &mut tmp),
            _ => vec_znx_normalize_assign::<_, Z>(B, &mut r, rc, &mut tmp),
        }
    }
    assert_frame(&before, &res, 1, 2, rc, RS);
    let rl: [i64; 8] = column(&res, 2, rc, RS);
    let bl: [i64; 8] = column(&before, 2, rc, RS);
    let rv = horner_w256(&rl[..RS], B);
    let bv = horner_w256(&bl[..RS], B);
    let off: i64 = match MODE {
        0 => k as i64,
        1 => -(k as i64),
        _ => 0,
    };
    assert!(torus_rel_any_rep(rv, RS * B, bv, RS * B, off), "in-place shift/normalize: wrong torus value");
    let mut j = 0;
    while j < RS {
        assert!(in_digit_range(B, rl[j]), "in-place shift/normalize: digit out of range");
        j += 1;
    }
    vsym::reached();
}


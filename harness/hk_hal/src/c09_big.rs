//! C09/C08/C11 on the big accumulator (FFT64 family, i64 `VecZnxBig`):
//! `poulpy-cpu-ref/src/reference/fft64/vec_znx_big.rs`, instantiated with FFT64Ref.
//! n = 2, 3 columns, frame assertions, same value domain as C09.
use crate::c09::DOM;
use crate::vz::*;
use poulpy_cpu_ref::reference::fft64::vec_znx_big::*;
use poulpy_cpu_ref::FFT64Ref;
use poulpy_hal::layouts::VecZnxBig;
use std::marker::PhantomData;

const N: usize = 2;
const COLS: usize = 3;

fn big_mut<const L: usize>(b: &mut Buf<L>, size: usize, max_size: usize) -> VecZnxBig<&mut [u8], FFT64Ref> {
    assert!(L == N * COLS * max_size);
    VecZnxBig { data: b.bytes_mut(), n: N, cols: COLS, size, max_size, _phantom: PhantomData }
}
fn big_ref<const L: usize>(b: &Buf<L>, size: usize) -> VecZnxBig<&[u8], FFT64Ref> {
    assert!(L == N * COLS * size);
    VecZnxBig { data: b.bytes(), n: N, cols: COLS, size, max_size: size, _phantom: PhantomData }
}

fn cols3(sel: usize) -> (usize, usize, usize) {
    match sel {
        0 => (1, 0, 2),
        1 => (2, 1, 0),
        2 => (0, 2, 1),
        _ => (0, 0, 0),
    }
}

/// OP: 0 add_into(big,big) 1 add_assign 2 add_small_into(big a, small b) 3 add_small_assign
///     4 sub (a-b) 5 sub_assign (R-A) 6 sub_negate_assign (A-R) 7 sub_small_a (small a - big b)
///     8 sub_small_b (big a - small b) 9 sub_small_a_assign (R - A, A small) 10 sub_small_b_assign (A - R)
///     11 negate 12 negate_assign 13 automorphism(g symbolic) 14 automorphism_assign
pub fn big_linear<const RS: usize, const AS: usize, const BS: usize, const LR: usize, const LA: usize, const LB: usize, const OP: usize>(sel: usize) {
    let (rc, ac, bc) = cols3(sel);
    let a = Buf::<LA>::sym_mag(DOM);
    let b = Buf::<LB>::sym_mag(DOM);
    let before = Buf::<LR>::sym_mag(DOM);
    let mut res = before;
    let g = if OP >= 13 {
        let g = vsym::i64();
        vsym::assume(g > -(1 << 20) && g < (1 << 20) && (g & 1) == 1);
        g
    } else {
        1
    };
    let mut tmp = vsym::arr_i64::<N>();
    {
        let mut r = big_mut(&mut res, RS, RS + 1);
        let ab = big_ref(&a, AS);
        let bb = big_ref(&b, BS);
        let asmall = a.vec(N, COLS, AS, AS);
        let bsmall = b.vec(N, COLS, BS, BS);
        match OP {
            0 => vec_znx_big_add_into::<_, _, _, FFT64Ref>(&mut r, rc, &ab, ac, &bb, bc),
            1 => vec_znx_big_add_assign::<_, _, FFT64Ref>(&mut r, rc, &ab, ac),
            2 => vec_znx_big_add_small_into::<_, _, _, FFT64Ref>(&mut r, rc, &ab, ac, &bsmall, bc),
            3 => vec_znx_big_add_small_assign::<_, _, FFT64Ref>(&mut r, rc, &asmall, ac),
            4 => vec_znx_big_sub::<_, _, _, FFT64Ref>(&mut r, rc, &ab, ac, &bb, bc),
            5 => vec_znx_big_sub_assign::<_, _, FFT64Ref>(&mut r, rc, &ab, ac),
            6 => vec_znx_big_sub_negate_assign::<_, _, FFT64Ref>(&mut r, rc, &ab, ac),
            7 => vec_znx_big_sub_small_a::<_, _, _, FFT64Ref>(&mut r, rc, &asmall, ac, &bb, bc),
            8 => vec_znx_big_sub_small_b::<_, _, _, FFT64Ref>(&mut r, rc, &ab, ac, &bsmall, bc),
            9 => vec_znx_big_sub_small_a_assign::<_, _, FFT64Ref>(&mut r, rc, &asmall, ac),
            10 => vec_znx_big_sub_small_b_assign::<_, _, FFT64Ref>(&mut r, rc, &asmall, ac),
            11 => vec_znx_big_negate::<_, _, FFT64Ref>(&mut r, rc, &ab, ac),
            12 => vec_znx_big_negate_assign::<_, FFT64Ref>(&mut r, rc),
            13 => vec_znx_big_automorphism::<_, _, FFT64Ref>(g, &mut r, rc, &ab, ac),
            _ => vec_znx_big_automorphism_assign::<_, FFT64Ref>(g, &mut r, rc, &mut tmp),
        }
    }
    let ga = |j: usize, i: usize| if j < AS { a.at(N, COLS, ac, j, i) } else { 0 };
    let gb = |j: usize, i: usize| if j < BS { b.at(N, COLS, bc, j, i) } else { 0 };
    let gr = |j: usize, i: usize| before.at(N, COLS, rc, j, i);
    assert_col(&before, &res, N, COLS, rc, RS, |j, i| match OP {
        0 | 2 => ga(j, i).wrapping_add(gb(j, i)),
        1 | 3 => gr(j, i).wrapping_add(ga(j, i)),
        4 | 7 | 8 => ga(j, i).wrapping_sub(gb(j, i)),
        5 | 9 => gr(j, i).wrapping_sub(ga(j, i)),
        6 | 10 => ga(j, i).wrapping_sub(gr(j, i)),
        11 => ga(j, i).wrapping_neg(),
        12 => gr(j, i).wrapping_neg(),
        13 => auto_coeff(N, g, i, |e| ga(j, e)),
        _ => auto_coeff(N, g, i, |e| gr(j, e)),
    });
    vsym::reached();
}

//! C11-A2 / C07-A1: DFT-domain shape functions of
//! `poulpy-cpu-ref/src/reference/fft64/vec_znx_dft.rs`, instantiated with the substituted
//! kernels of `probe_be.rs`.  n = 2 (m = 1, so the FFT tables need no trigonometry), three
//! columns, one spare capacity limb, ALL prior output content symbolic.  Assertions: the
//! selected column equals the limb-wise integer specification (a function of the inputs only),
//! every limb of it is written (zero where the size rule says so), nothing else changes.
use crate::probe_be::Probe;
use crate::vz::*;
use poulpy_cpu_ref::reference::fft64::reim::{ReimFFTTable, ReimIFFTTable};
use poulpy_cpu_ref::reference::fft64::vec_znx_dft::*;
use poulpy_hal::layouts::{VecZnxBig, VecZnxDft};
use std::marker::PhantomData;

const N: usize = 2;
const COLS: usize = 3;

fn dft_mut<const L: usize>(b: &mut Buf<L>, size: usize, max_size: usize) -> VecZnxDft<&mut [u8], Probe> {
    assert!(L == N * COLS * max_size);
    VecZnxDft { data: b.bytes_mut(), n: N, cols: COLS, size, max_size, _phantom: PhantomData }
}
fn dft_ref<const L: usize>(b: &Buf<L>, size: usize) -> VecZnxDft<&[u8], Probe> {
    assert!(L == N * COLS * size);
    VecZnxDft { data: b.bytes(), n: N, cols: COLS, size, max_size: size, _phantom: PhantomData }
}
fn big_mut<const L: usize>(b: &mut Buf<L>, size: usize, max_size: usize) -> VecZnxBig<&mut [u8], Probe> {
    assert!(L == N * COLS * max_size);
    VecZnxBig { data: b.bytes_mut(), n: N, cols: COLS, size, max_size, _phantom: PhantomData }
}

fn cols3(sel: usize) -> (usize, usize, usize) {
    match sel {
        0 => (1, 0, 2),
        1 => (2, 1, 0),
        2 => (0, 2, 1),
        _ => (0, 0, 0),
    }
}

/// OP: 0 add_into 1 sub 2 add_assign 3 sub_assign 4 sub_negate_assign 5 zero
///     6 copy(step=p0, offset=p1) 7 add_scaled_assign(scale = p0 as signed)
pub fn dft_linear<const RS: usize, const AS: usize, const BS: usize, const LR: usize, const LA: usize, const LB: usize, const OP: usize>(sel: usize, p0: i64, p1: usize) {
    let (rc, ac, bc) = cols3(sel);
    let a = Buf::<LA>::sym();
    let b = Buf::<LB>::sym();
    let before = Buf::<LR>::sym();
    let mut res = before;
    {
        let mut r = dft_mut(&mut res, RS, RS + 1);
        let av = dft_ref(&a, AS);
        let bv = dft_ref(&b, BS);
        match OP {
            0 => vec_znx_dft_add_into::<_, _, _, Probe>(&mut r, rc, &av, ac, &bv, bc),
            1 => vec_znx_dft_sub::<_, _, _, Probe>(&mut r, rc, &av, ac, &bv, bc),
            2 => vec_znx_dft_add_assign::<_, _, Probe>(&mut r, rc, &av, ac),
            3 => vec_znx_dft_sub_assign::<_, _, Probe>(&mut r, rc, &av, ac),
            4 => vec_znx_dft_sub_negate_assign::<_, _, Probe>(&mut r, rc, &av, ac),
            5 => vec_znx_dft_zero::<_, Probe>(&mut r, rc),
            6 => vec_znx_dft_copy::<_, _, Probe>(p0 as usize, p1, &mut r, rc, &av, ac),
            _ => vec_znx_dft_add_scaled_assign::<_, _, Probe>(&mut r, rc, &av, ac, p0),
        }
    }
    let ga = |j: usize, i: usize| if j < AS { a.at(N, COLS, ac, j, i) } else { 0 };
    let gb = |j: usize, i: usize| if j < BS { b.at(N, COLS, bc, j, i) } else { 0 };
    let gr = |j: usize, i: usize| before.at(N, COLS, rc, j, i);
    assert_col(&before, &res, N, COLS, rc, RS, |j, i| match OP {
        0 => ga(j, i).wrapping_add(gb(j, i)),
        1 => ga(j, i).wrapping_sub(gb(j, i)),
        2 => gr(j, i).wrapping_add(ga(j, i)),
        3 => gr(j, i).wrapping_sub(ga(j, i)),
        4 => ga(j, i).wrapping_sub(gr(j, i)),
        5 => 0,
        6 => {
            // res limb j = a limb (offset + j*step) when it exists, else zero
            let limb = p1 + j * (p0 as usize);
            ga(limb, i)
        }
        _ => {
            // res limb j += a limb (j + scale) (limbs outside a contribute nothing)
            let src = j as i64 + p0;
            if src >= 0 { gr(j, i).wrapping_add(ga(src as usize, i)) } else { gr(j, i) }
        }
    });
    vsym::reached();
}

/// `vec_znx_dft_apply(step, offset)`: res limb j = DFT(a limb offset + j*step), zero past the input.
pub fn dft_apply<const RS: usize, const AS: usize, const LR: usize, const LA: usize>(sel: usize, step: usize, offset: usize) {
    let (rc, ac, _) = cols3(sel);
    let a = Buf::<LA>::sym();
    let before = Buf::<LR>::sym();
    let mut res = before;
    let table = ReimFFTTable::<f64>::new(N / 2);
    {
        let mut r = dft_mut(&mut res, RS, RS + 1);
        let av = a.vec(N, COLS, AS, AS);
        vec_znx_dft_apply::<_, _, Probe>(&table, step, offset, &mut r, rc, &av, ac);
    }
    assert_col(&before, &res, N, COLS, rc, RS, |j, i| {
        let limb = offset + j * step;
        if limb < AS { a.at(N, COLS, ac, limb, i) } else { 0 }
    });
    core::mem::forget(table);
    vsym::reached();
}

/// `vec_znx_idft_apply` (TMPA = false) / `vec_znx_idft_apply_tmpa` (TMPA = true)
pub fn idft_apply<const RS: usize, const AS: usize, const LR: usize, const LA: usize, const TMPA: bool>(sel: usize) {
    let (rc, ac, _) = cols3(sel);
    let a0 = Buf::<LA>::sym();
    let mut a = a0;
    let before = Buf::<LR>::sym();
    let mut res = before;
    let table = ReimIFFTTable::<f64>::new(N / 2);
    {
        let mut r = big_mut(&mut res, RS, RS + 1);
        if TMPA {
            let mut av = dft_mut(&mut a, AS, AS);
            vec_znx_idft_apply_tmpa::<_, _, Probe>(&table, &mut r, rc, &mut av, ac);
        } else {
            let av = dft_ref(&a, AS);
            vec_znx_idft_apply::<_, _, Probe>(&table, &mut r, rc, &av, ac);
        }
    }
    assert_col(&before, &res, N, COLS, rc, RS, |j, i| if j < AS { a0.at(N, COLS, ac, j, i) } else { 0 });
    // the tmpa form may scribble on column a_col of `a` only
    let mut p = 0;
    while p < LA {
        let col = (p / N) % COLS;
        if !(TMPA && col == ac) {
            assert!(a.0[p] == a0.0[p], "idft modified a read-only operand / another column");
        }
        p += 1;
    }
    core::mem::forget(table);
    vsym::reached();
}

// ---------------------------------------------------------------------------------------------
// C07-A1 (structural layer): scalar-vector products of reference/fft64/svp.rs with the
// substituted kernels.  The prepared scalar is a small CONCRETE Gaussian integer per column
// (constant x symbolic products only); the vector operand and all prior output are symbolic.
// Specification: res limb j = ppol (*) b limb j (pointwise Gaussian-integer product on the
// (re | im) halves) for j < min(res.size, b.size), zero beyond, nothing else modified.
use poulpy_cpu_ref::reference::fft64::svp::*;
use poulpy_hal::layouts::SvpPPol;

const PPOL: [[i64; 2]; 3] = [[3, -2], [-5, 7], [1, 4]]; // (re, im) per column, n = 2 => m = 1

fn ppol_buf() -> Buf<6> {
    Buf([PPOL[0][0], PPOL[0][1], PPOL[1][0], PPOL[1][1], PPOL[2][0], PPOL[2][1]])
}

fn gmul(p: [i64; 2], x: [i64; 2]) -> [i64; 2] {
    [p[0].wrapping_mul(x[0]).wrapping_sub(p[1].wrapping_mul(x[1])), p[0].wrapping_mul(x[1]).wrapping_add(p[1].wrapping_mul(x[0]))]
}

/// OP: 0 svp_apply_dft (b: VecZnx) 1 svp_apply_dft_to_dft (b: VecZnxDft) 2 svp_apply_dft_to_dft_assign
///     3 svp_prepare (res: SvpPPol <- ScalarZnx)
pub fn svp<const RS: usize, const BS: usize, const LR: usize, const LB: usize, const OP: usize>(sel: usize) {
    let (rc, ac, bc) = cols3(sel);
    let pp = ppol_buf();
    let b = Buf::<LB>::sym();
    let before = Buf::<LR>::sym();
    let mut res = before;
    let table = ReimFFTTable::<f64>::new(N / 2);
    if OP == 3 {
        // prepare: res is an SvpPPol with COLS columns (LR == N*COLS), source a ScalarZnx (LB == N*COLS)
        {
            let mut r: SvpPPol<&mut [u8], Probe> = SvpPPol { data: res.bytes_mut(), n: N, cols: COLS, _phantom: PhantomData };
            let s = b.scalar(N, COLS);
            svp_prepare::<_, _, Probe>(&table, &mut r, rc, &s, bc);
        }
        let mut p = 0;
        while p < LR {
            let col = p / N;
            let want = if col == rc { b.0[N * bc + p % N] } else { before.0[p] };
            assert!(res.0[p] == want, "svp_prepare: selected column is not the (substituted) transform of the scalar / stray write");
            p += 1;
        }
        core::mem::forget(table);
        vsym::reached();
        return;
    }
    {
        let a: SvpPPol<&[u8], Probe> = SvpPPol { data: pp.bytes(), n: N, cols: COLS, _phantom: PhantomData };
        let mut r = dft_mut(&mut res, RS, RS + 1);
        match OP {
            0 => {
                let bv = b.vec(N, COLS, BS, BS);
                svp_apply_dft::<_, _, _, Probe>(&table, &mut r, rc, &a, ac, &bv, bc)
            }
            1 => {
                let bv = dft_ref(&b, BS);
                svp_apply_dft_to_dft::<_, _, _, Probe>(&mut r, rc, &a, ac, &bv, bc)
            }
            _ => svp_apply_dft_to_dft_assign::<_, _, Probe>(&mut r, rc, &a, ac),
        }
    }
    assert_col(&before, &res, N, COLS, rc, RS, |j, i| {
        let x = if OP == 2 {
            [before.at(N, COLS, rc, j, 0), before.at(N, COLS, rc, j, 1)]
        } else if j < BS {
            [b.at(N, COLS, bc, j, 0), b.at(N, COLS, bc, j, 1)]
        } else {
            [0, 0]
        };
        gmul(PPOL[ac], x)[i]
    });
    core::mem::forget(table);
    vsym::reached();
}

/// probe: can the FFT table for m = 4 (n = 8) be constructed under Kani? (trigonometry on constants)
pub fn probe_table_m4() {
    let table = ReimFFTTable::<f64>::new(4);
    assert!(table.m() == 4);
    core::mem::forget(table);
    vsym::reached();
}

// ---------------------------------------------------------------------------------------------
// C07-A1 / C11-A2: vector-matrix product `vmp_prepare` + `vmp_apply_dft_to_dft` of
// reference/fft64/vmp.rs with substituted reim4 kernels.  n = 8 (one block of 4 Gaussian
// integers), cols_in = cols_out = 1.  The matrix is CONCRETE (small integers, prepared by the
// real vmp_prepare, so the block-interleaved layout is the repository's), the vector and all
// prior output are symbolic.  Specification (exact, on the bit patterns):
//   res limb c = sum_{r < min(a_size, rows)} a limb r (*) M[r][c + limb_offset]   for c + limb_offset < min(size, res_size),
//   zero for the remaining limbs of res; nothing else changes.
use poulpy_cpu_ref::reference::fft64::vmp::{vmp_apply_dft_to_dft, vmp_prepare};
use poulpy_hal::layouts::{MatZnx, VmpPMat};

const NV: usize = 8;

fn mat_entry(r: usize, c: usize, i: usize) -> i64 {
    ((r * 7 + c * 3 + i * 5) % 9) as i64 - 4
}

pub fn vmp<const R: usize, const S: usize, const A: usize, const RS: usize, const LM: usize, const LA: usize, const LR: usize>(limb_offset: usize) {
    let a = Buf::<LA>::sym();
    let before = Buf::<LR>::sym();
    vmp_core::<R, S, A, RS, LM, LA, LR>(limb_offset, a, before);
    vsym::reached();
}

pub fn vmp_core<const R: usize, const S: usize, const A: usize, const RS: usize, const LM: usize, const LA: usize, const LR: usize>(limb_offset: usize, a: Buf<LA>, before: Buf<LR>) {
    // concrete matrix: rows R, cols_in 1, cols_out 1, size S  (LM = NV*R*S)
    let mut mat = Buf::<LM>([0i64; LM]);
    let mut r = 0;
    while r < R {
        let mut c = 0;
        while c < S {
            let mut i = 0;
            while i < NV {
                mat.0[NV * (r * S + c) + i] = mat_entry(r, c, i);
                i += 1;
            }
            c += 1;
        }
        r += 1;
    }
    let mut pm = Buf::<LM>([0i64; LM]);
    let table = ReimFFTTable::<f64>::new(NV / 2);
    {
        let m: MatZnx<&[u8]> = MatZnx::from_data(mat.bytes(), NV, R, 1, 1, S);
        let mut p: VmpPMat<&mut [u8], Probe> = VmpPMat::from_data(pm.bytes_mut(), NV, R, 1, 1, S);
        let mut tmp = [0f64; NV];
        vmp_prepare::<_, _, Probe>(&table, &mut p, &m, &mut tmp);
    }
    let mut res = before;
    {
        let p: VmpPMat<&[u8], Probe> = VmpPMat::from_data(pm.bytes(), NV, R, 1, 1, S);
        let av: VecZnxDft<&[u8], Probe> = VecZnxDft { data: a.bytes(), n: NV, cols: 1, size: A, max_size: A, _phantom: PhantomData };
        let mut rv: VecZnxDft<&mut [u8], Probe> = VecZnxDft { data: res.bytes_mut(), n: NV, cols: 1, size: RS, max_size: RS + 1, _phantom: PhantomData };
        let mut tmp = [0f64; 16 + 8 * 4];
        vmp_apply_dft_to_dft::<_, _, _, Probe>(&mut rv, &av, &p, limb_offset, &mut tmp);
    }
    let row_max = if A < R { A } else { R };
    let col_max = if S < RS { S } else { RS };
    assert_col(&before, &res, NV, 1, 0, RS, |c, i| {
        let src = c + limb_offset;
        if limb_offset >= col_max || src >= col_max {
            return 0;
        }
        // coefficient i of limb c: i < 4 real part k = i, else imaginary part k = i - 4
        let k = i % 4;
        let mut acc: i64 = 0;
        let mut r = 0;
        while r < row_max {
            let (ar, ai) = (a.at(NV, 1, 0, r, k), a.at(NV, 1, 0, r, k + 4));
            let (mr, mi) = (mat_entry(r, src, k), mat_entry(r, src, k + 4));
            acc = acc.wrapping_add(if i < 4 { ar.wrapping_mul(mr).wrapping_sub(ai.wrapping_mul(mi)) } else { ar.wrapping_mul(mi).wrapping_add(ai.wrapping_mul(mr)) });
            r += 1;
        }
        acc
    });
    core::mem::forget(table);
}

#[cfg(test)]
mod vmp_tests {
    use super::*;
    fn fill<const L: usize>(seed: i64) -> Buf<L> {
        let mut b = Buf::<L>([0i64; L]);
        for i in 0..L {
            b.0[i] = (seed * 31 + i as i64 * 17) % 101 - 50;
        }
        b
    }
    /// native validation of the vmp oracle on concrete data (spec validation, DESIGN §4)
    #[test]
    fn vmp_oracle_matches_code_on_concrete_data() {
        vmp_core::<2, 2, 2, 2, 32, 16, 24>(0, fill(1), fill(2));
        vmp_core::<2, 3, 2, 3, 48, 16, 32>(0, fill(3), fill(4));
        vmp_core::<3, 2, 2, 2, 48, 16, 24>(0, fill(5), fill(6));
        vmp_core::<2, 2, 3, 3, 32, 24, 32>(0, fill(7), fill(8));
        vmp_core::<1, 1, 1, 1, 8, 8, 16>(0, fill(9), fill(10));
        vmp_core::<2, 3, 2, 2, 48, 16, 24>(0, fill(11), fill(12));
    }
    #[test]
    fn vmp_oracle_with_limb_offset() {
        vmp_core::<2, 3, 2, 3, 48, 16, 32>(1, fill(13), fill(14));
        vmp_core::<2, 3, 2, 3, 48, 16, 32>(2, fill(15), fill(16));
        vmp_core::<2, 2, 2, 2, 32, 16, 24>(1, fill(17), fill(18));
    }
}

/// C11 (oracle-free): `vmp_apply_dft_to_dft` with a limb offset, run from two independent
/// symbolic fills of the output: the RS active limbs must not depend on the prior content.
pub fn vmp_two_fills<const R: usize, const S: usize, const A: usize, const RS: usize, const LM: usize, const LA: usize, const LR: usize>(limb_offset: usize) {
    let mut mat = Buf::<LM>([0i64; LM]);
    let mut idx = 0;
    while idx < LM {
        mat.0[idx] = mat_entry(idx / (NV * S), (idx / NV) % S, idx % NV);
        idx += 1;
    }
    let mut pm = Buf::<LM>([0i64; LM]);
    let table = ReimFFTTable::<f64>::new(NV / 2);
    {
        let m: MatZnx<&[u8]> = MatZnx::from_data(mat.bytes(), NV, R, 1, 1, S);
        let mut p: VmpPMat<&mut [u8], Probe> = VmpPMat::from_data(pm.bytes_mut(), NV, R, 1, 1, S);
        let mut tmp = [0f64; NV];
        vmp_prepare::<_, _, Probe>(&table, &mut p, &m, &mut tmp);
    }
    let a = Buf::<LA>::sym();
    let mut r1 = Buf::<LR>::sym();
    let mut r2 = Buf::<LR>::sym();
    let p: VmpPMat<&[u8], Probe> = VmpPMat::from_data(pm.bytes(), NV, R, 1, 1, S);
    let av: VecZnxDft<&[u8], Probe> = VecZnxDft { data: a.bytes(), n: NV, cols: 1, size: A, max_size: A, _phantom: PhantomData };
    {
        let mut rv: VecZnxDft<&mut [u8], Probe> = VecZnxDft { data: r1.bytes_mut(), n: NV, cols: 1, size: RS, max_size: RS + 1, _phantom: PhantomData };
        let mut tmp = [0f64; 16 + 8 * 4];
        vmp_apply_dft_to_dft::<_, _, _, Probe>(&mut rv, &av, &p, limb_offset, &mut tmp);
    }
    {
        let mut rv: VecZnxDft<&mut [u8], Probe> = VecZnxDft { data: r2.bytes_mut(), n: NV, cols: 1, size: RS, max_size: RS + 1, _phantom: PhantomData };
        let mut tmp = [0f64; 16 + 8 * 4];
        vmp_apply_dft_to_dft::<_, _, _, Probe>(&mut rv, &av, &p, limb_offset, &mut tmp);
    }
    let mut i = 0;
    while i < NV * RS {
        assert!(r1.0[i] == r2.0[i], "vmp result depends on what the output buffer held before the call (stale limb)");
        i += 1;
    }
    core::mem::forget(table);
    vsym::reached();
}

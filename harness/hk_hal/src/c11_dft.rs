//! C11-A2 / C07-A1: DFT-domain shape functions of
//! `poulpy-cpu-ref/src/reference/fft64/vec_znx_dft.rs`, instantiated with the substituted
//! kernels of `probe_be.rs`.  n = 2 (m = 1, so the FFT tables need no trigonometry), three
//! columns, one spare capacity limb, ALL prior output content symbolic.  Assertions: the
//! selected column equals the limb-wise integer specification (a function of the inputs only),
//! every limb of it is written (zero where the size rule says so), nothing else changes.
use crate::probe_be::Probe;
use crate::vz::*;
use poulpy_cpu_ref::reference::fft64::reim::{ReimFFTTable, ReimIFFTTable};
use poulpy_cpu_ref::reference::fft64::vec_znx_dft::*;
use poulpy_hal::layouts::{VecZnxBig, VecZnxDft};
use std::marker::PhantomData;

const N: usize = 2;
const COLS: usize = 3;

fn dft_mut<const L: usize>(b: &mut Buf<L>, size: usize, max_size: usize) -> VecZnxDft<&mut [u8], Probe> {
    assert!(L == N * COLS * max_size);
    VecZnxDft { data: b.bytes_mut(), n: N, cols: COLS, size, max_size, _phantom: PhantomData }
}
fn dft_ref<const L: usize>(b: &Buf<L>, size: usize) -> VecZnxDft<&[u8], Probe> {
    assert!(L == N * COLS * size);
    VecZnxDft { data: b.bytes(), n: N, cols: COLS, size, max_size: size, _phantom: PhantomData }
}
fn big_mut<const L: usize>(b: &mut Buf<L>, size: usize, max_size: usize) -> VecZnxBig<&mut [u8], Probe> {
    assert!(L == N * COLS * max_size);
    VecZnxBig { data: b.bytes_mut(), n: N, cols: COLS, size, max_size, _phantom: PhantomData }
}

fn cols3(sel: usize) -> (usize, usize, usize) {
    match sel {
        0 => (1, 0, 2),
        1 => (2, 1, 0),
        2 => (0, 2, 1),
        _ => (0, 0, 0),
    }
}

/// OP: 0 add_into 1 sub 2 add_assign 3 sub_assign 4 sub_negate_assign 5 zero
///     6 copy(step=p0, offset=p1) 7 add_scaled_assign(scale = p0 as signed)
pub fn dft_linear<const RS: usize, const AS: usize, const BS: usize, const LR: usize, const LA: usize, const LB: usize, const OP: usize>(sel: usize, p0: i64, p1: usize) {
    let (rc, ac, bc) = cols3(sel);
    let a = Buf::<LA>::sym();
    let b = Buf::<LB>::sym();
    let before = Buf::<LR>::sym();
    let mut res = before;
    {
        let mut r = dft_mut(&mut res, RS, RS + 1);
        let av = dft_ref(&a, AS);
        let bv = dft_ref(&b, BS);
        match OP {
            0 => vec_znx_dft_add_into::<_, _, _, Probe>(&mut r, rc, &av, ac, &bv, bc),
            1 => vec_znx_dft_sub::<_, _, _, Probe>(&mut r, rc, &av, ac, &bv, bc),
            2 => vec_znx_dft_add_assign::<_, _, Probe>(&mut r, rc, &av, ac),
            3 => vec_znx_dft_sub_assign::<_, _, Probe>(&mut r, rc, &av, ac),
            4 => vec_znx_dft_sub_negate_assign::<_, _, Probe>(&mut r, rc, &av, ac),
            5 => vec_znx_dft_zero::<_, Probe>(&mut r, rc),
            6 => vec_znx_dft_copy::<_, _, Probe>(p0 as usize, p1, &mut r, rc, &av, ac),
            _ => vec_znx_dft_add_scaled_assign::<_, _, Probe>(&mut r, rc, &av, ac, p0),
        }
    }
    let ga = |j: usize, i: usize| if j < AS { a.at(N, COLS, ac, j, i) } else { 0 };
    let gb = |j: usize, i: usize| if j < BS { b.at(N, COLS, bc, j, i) } else { 0 };
    let gr = |j: usize, i: usize| before.at(N, COLS, rc, j, i);
    assert_col(&before, &res, N, COLS, rc, RS, |j, i| match OP {
        0 => ga(j, i).wrapping_add(gb(j, i)),
        1 => ga(j, i).wrapping_sub(gb(j, i)),
        2 => gr(j, i).wrapping_add(ga(j, i)),
        3 => gr(j, i).wrapping_sub(ga(j, i)),
        4 => ga(j, i).wrapping_sub(gr(j, i)),
        5 => 0,
        6 => {
            // res limb j = a limb (offset + j*step) when it exists, else zero
            let limb = p1 + j * (p0 as usize);
            ga(limb, i)
        }
        _ => {
            // res limb j += a limb (j + scale) (limbs outside a contribute nothing)
            let src = j as i64 + p0;
            if src >= 0 { gr(j, i).wrapping_add(ga(src as usize, i)) } else { gr(j, i) }
        }
    });
    vsym::reached();
}

/// `vec_znx_dft_apply(step, offset)`: res limb j = DFT(a limb offset + j*step), zero past the input.
pub fn dft_apply<const RS: usize, const AS: usize, const LR: usize, const LA: usize>(sel: usize, step: usize, offset: usize) {
    let (rc, ac, _) = cols3(sel);
    let a = Buf::<LA>::sym();
    let before = Buf::<LR>::sym();
    let mut res = before;
    let table = ReimFFTTable::<f64>::new(N / 2);
    {
        let mut r = dft_mut(&mut res, RS, RS + 1);
        let av = a.vec(N, COLS, AS, AS);
        vec_znx_dft_apply::<_, _, Probe>(&table, step, offset, &mut r, rc, &av, ac);
    }
    assert_col(&before, &res, N, COLS, rc, RS, |j, i| {
        let limb = offset + j * step;
        if limb < AS { a.at(N, COLS, ac, limb, i) } else { 0 }
    });
    core::mem::forget(table);
    vsym::reached();
}

/// `vec_znx_idft_apply` (TMPA = false) / `vec_znx_idft_apply_tmpa` (TMPA = true)
pub fn idft_apply<const RS: usize, const AS: usize, const LR: usize, const LA: usize, const TMPA: bool>(sel: usize) {
    let (rc, ac, _) = cols3(sel);
    let a0 = Buf::<LA>::sym();
    let mut a = a0;
    let before = Buf::<LR>::sym();
    let mut res = before;
    let table = ReimIFFTTable::<f64>::new(N / 2);
    {
        let mut r = big_mut(&mut res, RS, RS + 1);
        if TMPA {
            let mut av = dft_mut(&mut a, AS, AS);
            vec_znx_idft_apply_tmpa::<_, _, Probe>(&table, &mut r, rc, &mut av, ac);
        } else {
            let av = dft_ref(&a, AS);
            vec_znx_idft_apply::<_, _, Probe>(&table, &mut r, rc, &av, ac);
        }
    }
    assert_col(&before, &res, N, COLS, rc, RS, |j, i| if j < AS { a0.at(N, COLS, ac, j, i) } else { 0 });
    // the tmpa form may scribble on column a_col of `a` only
    let mut p = 0;
    while p < LA {
        let col = (p / N) % COLS;
        if !(TMPA && col == ac) {
            assert!(a.0[p] == a0.0[p], "idft modified a read-only operand / another column");
        }
        p += 1;
    }
    core::mem::forget(table);
    vsym::reached();
}

// ---------------------------------------------------------------------------------------------
// C07-A1 (structural layer): scalar-vector products of reference/fft64/svp.rs with the
// substituted kernels.  The prepared scalar is a small CONCRETE Gaussian integer per column
// (constant x symbolic products only); the vector operand and all prior output are symbolic.
// Specification: res limb j = ppol (*) b limb j (pointwise Gaussian-integer product on the
// (re | im) halves) for j < min(res.size, b.size), zero beyond, nothing else modified.
use poulpy_cpu_ref::reference::fft64::svp::*;
use poulpy_hal::layouts::SvpPPol;

const PPOL: [[i64; 2]; 3] = [[3, -2], [-5, 7], [1, 4]]; // (re, im) per column, n = 2 => m = 1

fn ppol_buf() -> Buf<6> {
    Buf([PPOL[0][0], PPOL[0][1], PPOL[1][0], PPOL[1][1], PPOL[2][0], PPOL[2][1]])
}

fn gmul(p: [i64; 2], x: [i64; 2]) -> [i64; 2] {
    [p[0].wrapping_mul(x[0]).wrapping_sub(p[1].wrapping_mul(x[1])), p[0].wrapping_mul(x[1]).wrapping_add(p[1].wrapping_mul(x[0]))]
}

/// OP: 0 svp_apply_dft (b: VecZnx) 1 svp_apply_dft_to_dft (b: VecZnxDft) 2 svp_apply_dft_to_dft_assign
///     3 svp_prepare (res: SvpPPol <- ScalarZnx)
pub fn svp<const RS: usize, const BS: usize, const LR: usize, const LB: usize, const OP: usize>(sel: usize) {
    let (rc, ac, bc) = cols3(sel);
    let pp = ppol_buf();
    let b = Buf::<LB>::sym();
    let before = Buf::<LR>::sym();
    let mut res = before;
    let table = ReimFFTTable::<f64>::new(N / 2);
    if OP == 3 {
        // prepare: res is an SvpPPol with COLS columns (LR == N*COLS), source a ScalarZnx (LB == N*COLS)
        {
            let mut r: SvpPPol<&mut [u8], Probe> = SvpPPol { data: res.bytes_mut(), n: N, cols: COLS, _phantom: PhantomData };
            let s = b.scalar(N, COLS);
            svp_prepare::<_, _, Probe>(&table, &mut r, rc, &s, bc);
        }
        let mut p = 0;
        while p < LR {
            let col = p / N;
            let want = if col == rc { b.0[N * bc + p % N] } else { before.0[p] };
            assert!(res.0[p] == want, "svp_prepare: selected column is not the (substituted) transform of the scalar / stray write");
            p += 1;
        }
        core::mem::forget(table);
        vsym::reached();
        return;
    }
    {
        let a: SvpPPol<&[u8], Probe> = SvpPPol { data: pp.bytes(), n: N, cols: COLS, _phantom: PhantomData };
        let mut r = dft_mut(&mut res, RS, RS + 1);
        match OP {
            0 => {
                let bv = b.vec(N, COLS, BS, BS);
                svp_apply_dft::<_, _, _, Probe>(&table, &mut r, rc, &a, ac, &bv, bc)
            }
            1 => {
                let bv = dft_ref(&b, BS);
                svp_apply_dft_to_dft::<_, _, _, Probe>(&mut r, rc, &a, ac, &bv, bc)
            }
            _ => svp_apply_dft_to_dft_assign::<_, _, Probe>(&mut r, rc, &a, ac),
        }
    }
    assert_col(&before, &res, N, COLS, rc, RS, |j, i| {
        let x = if OP == 2 {
            [before.at(N, COLS, rc, j, 0), before.at(N, COLS, rc, j, 1)]
        } else if j < BS {
            [b.at(N, COLS, bc, j, 0), b.at(N, COLS, bc, j, 1)]
        } else {
            [0, 0]
        };
        gmul(PPOL[ac], x)[i]
    });
    core::mem::forget(table);
    vsym::reached();
}

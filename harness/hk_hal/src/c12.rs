//! C12: scratch arena arithmetic (A1) and (operation, *_tmp_bytes) pairs of the HAL on
//! `Module<FFT64Ref>` / `Module<NTT120Ref>` marker modules (A2): the scratch handed to the op is
//! EXACTLY `*_tmp_bytes()` bytes (64-byte aligned start, like `ScratchOwned::alloc`), its contents
//! are symbolic, and the result must equal the reference-level function run with its own
//! zero-initialised temporaries (so: sufficient, in bounds -- Kani's checks --, and independent
//! of the scratch contents).
use crate::vz::*;
use poulpy_cpu_ref::reference::vec_znx::*;
use poulpy_cpu_ref::{FFT64Ref, NTT120Ref};
use poulpy_hal::api::*;
use poulpy_hal::layouts::{Backend, Module, Scratch};

/// A1: one `take_slice::<u8>(len)` from a window of WLEN bytes starting START bytes after a
/// 64-byte boundary; `len` symbolic.
pub fn take_slice<const START: usize, const WLEN: usize, const LB: usize>() {
    let mut arena = Buf::<LB>::sym();
    let base = arena.bytes_mut();
    let win = &mut base[START..START + WLEN];
    let w0 = win.as_ptr() as usize;
    let scratch: &mut Scratch<FFT64Ref> = Scratch::<FFT64Ref>::from_bytes(win);
    let avail = scratch.available();
    let pad = (64 - START % 64) % 64;
    assert!(avail == WLEN.saturating_sub(pad), "available() is not the aligned capacity");
    let len = vsym::usize();
    vsym::assume(len <= avail);
    let (taken, rest) = scratch.take_slice::<u8>(len);
    let t0 = taken.as_ptr() as usize;
    assert!(taken.len() == len);
    assert!(t0 % 64 == 0, "taken slice is not 64-byte aligned");
    assert!(t0 >= w0 && t0 + len <= w0 + WLEN, "taken slice leaves the window");
    let r0 = rest.data.as_ptr() as usize;
    assert!(r0 == t0 + len, "remainder does not start right after the taken slice");
    assert!(rest.data.len() == avail - len, "remainder length");
    assert!(r0 + rest.data.len() <= w0 + WLEN, "remainder leaves the window");
    vsym::reached();
}

/// A1 (refusal): a request larger than the aligned capacity (but within the raw window) must be
/// refused by a panic, never served with memory outside the window.  `#[kani::should_panic]`.
pub fn take_slice_refuse<const START: usize, const WLEN: usize, const LB: usize>() {
    let mut arena = Buf::<LB>::sym();
    let base = arena.bytes_mut();
    let win = &mut base[START..START + WLEN];
    let scratch: &mut Scratch<FFT64Ref> = Scratch::<FFT64Ref>::from_bytes(win);
    let avail = scratch.available();
    let len = vsym::usize();
    vsym::assume(len > avail && len <= WLEN);
    let (taken, _rest) = scratch.take_slice::<u8>(len);
    // reaching this point is the violation; make the returned slice observable for the replay
    let _ = taken.len();
}

/// A1: `split_mut(n, len)` must succeed whenever `available() >= n * len` (its own precondition).
pub fn split_mut<const START: usize, const WLEN: usize, const LB: usize, const NPARTS: usize, const ALIGNED: bool>() {
    let mut arena = Buf::<LB>::sym();
    let base = arena.bytes_mut();
    let win = &mut base[START..START + WLEN];
    let w0 = win.as_ptr() as usize;
    let scratch: &mut Scratch<FFT64Ref> = Scratch::<FFT64Ref>::from_bytes(win);
    let len = vsym::usize();
    vsym::assume(len <= WLEN && scratch.available() >= NPARTS * len);
    if ALIGNED {
        // per-part length a multiple of the 64-byte scratch alignment
        vsym::assume(len % 64 == 0);
    }
    let (parts, _rest) = scratch.split_mut(NPARTS, len);
    assert!(parts.len() == NPARTS);
    let mut i = 0;
    while i < NPARTS {
        let p = parts[i].data.as_ptr() as usize;
        assert!(parts[i].data.len() == len);
        assert!(p >= w0 && p + len <= w0 + WLEN, "split part leaves the window");
        if i > 0 {
            let q = parts[i - 1].data.as_ptr() as usize;
            assert!(q + len <= p, "split parts overlap");
        }
        i += 1;
    }
    core::mem::forget(parts);
    vsym::reached();
}

fn same<const L: usize>(x: &Buf<L>, y: &Buf<L>) {
    let mut i = 0;
    while i < L {
        assert!(x.0[i] == y.0[i], "result with exact-size symbolic scratch differs from the reference-level result");
        i += 1;
    }
}

/// A2: HAL operations with exactly `*_tmp_bytes()` of scratch.  n = NN, 2 columns.
/// OP: 0 normalize(b,b,off=p) 1 lsh(k=p) 2 rsh(k=p) 3 lsh_assign 4 rsh_assign 5 rotate_assign(p)
///     6 automorphism_assign(g=p) 7 mul_xp_minus_one_assign(p) 8 normalize_assign 9 rsh_add 10 lsh_sub
pub fn hal_op<BE, const NN: usize, const S: usize, const L: usize, const SB: usize, const OP: usize>(b: usize, p: i64)
where
    BE: Backend + crate::c08_vec::KernAll,
    Module<BE>: VecZnxNormalize<BE>
        + VecZnxNormalizeTmpBytes
        + VecZnxLsh<BE>
        + VecZnxLshTmpBytes
        + VecZnxRsh<BE>
        + VecZnxRshTmpBytes
        + VecZnxLshAssign<BE>
        + VecZnxRshAssign<BE>
        + VecZnxRotateAssign<BE>
        + VecZnxRotateAssignTmpBytes
        + VecZnxAutomorphismAssign<BE>
        + VecZnxAutomorphismAssignTmpBytes
        + VecZnxMulXpMinusOneAssign<BE>
        + VecZnxMulXpMinusOneAssignTmpBytes
        + VecZnxNormalizeAssign<BE>
        + VecZnxRshAddInto<BE>
        + VecZnxLshSub<BE>,
    Scratch<BE>: ScratchFromBytes<BE>,
{
    let module: Module<BE> = Module::<BE>::new_marker(NN as u64);
    let a = Buf::<L>::sym_mag(60);
    let r0 = Buf::<L>::sym_mag(60);
    let (mut r1, mut r2) = (r0, r0);
    let bytes = match OP {
        0 | 8 => module.vec_znx_normalize_tmp_bytes(),
        1 | 3 | 10 => module.vec_znx_lsh_tmp_bytes(),
        2 | 4 | 9 => module.vec_znx_rsh_tmp_bytes(),
        5 => module.vec_znx_rotate_assign_tmp_bytes(),
        6 => module.vec_znx_automorphism_assign_tmp_bytes(),
        _ => module.vec_znx_mul_xp_minus_one_assign_tmp_bytes(),
    };
    assert!(bytes <= SB * 8, "GRID ERROR: scratch arena too small for the declared size");
    let mut arena = Buf::<SB>::sym();
    set_arena(arena.bytes().as_ptr());
    {
        let scratch: &mut Scratch<BE> = Scratch::<BE>::from_bytes(&mut arena.bytes_mut()[..bytes]);
        let mut r = r1.vec_mut(NN, 2, S, S);
        let av = a.vec(NN, 2, S, S);
        let k = p as usize;
        match OP {
            0 => module.vec_znx_normalize(&mut r, b, p, 1, &av, b, 0, scratch),
            1 => module.vec_znx_lsh(b, k, &mut r, 1, &av, 0, scratch),
            2 => module.vec_znx_rsh(b, k, &mut r, 1, &av, 0, scratch),
            3 => module.vec_znx_lsh_assign(b, k, &mut r, 1, scratch),
            4 => module.vec_znx_rsh_assign(b, k, &mut r, 1, scratch),
            5 => module.vec_znx_rotate_assign(p, &mut r, 1, scratch),
            6 => module.vec_znx_automorphism_assign(p, &mut r, 1, scratch),
            7 => module.vec_znx_mul_xp_minus_one_assign(p, &mut r, 1, scratch),
            8 => module.vec_znx_normalize_assign(b, &mut r, 1, scratch),
            9 => module.vec_znx_rsh_add_into(b, k, &mut r, 1, &av, 0, scratch),
            _ => module.vec_znx_lsh_sub(b, k, &mut r, 1, &av, 0, scratch),
        }
    }
    {
        let mut tmp = [0i64; 64];
        let mut r = r2.vec_mut(NN, 2, S, S);
        let av = a.vec(NN, 2, S, S);
        let k = p as usize;
        match OP {
            0 => vec_znx_normalize::<_, _, BE>(&mut r, b, p, 1, &av, b, 0, &mut tmp[..3 * NN]),
            1 => vec_znx_lsh::<_, _, BE, true>(b, k, &mut r, 1, &av, 0, &mut tmp[..NN]),
            2 => vec_znx_rsh::<_, _, BE, true>(b, k, &mut r, 1, &av, 0, &mut tmp[..2 * NN]),
            3 => vec_znx_lsh_assign::<_, BE>(b, k, &mut r, 1, &mut tmp[..NN]),
            4 => vec_znx_rsh_assign::<_, BE>(b, k, &mut r, 1, &mut tmp[..2 * NN]),
            5 => vec_znx_rotate_assign::<_, BE>(p, &mut r, 1, &mut tmp[..NN]),
            6 => vec_znx_automorphism_assign::<_, BE>(p, &mut r, 1, &mut tmp[..NN]),
            7 => vec_znx_mul_xp_minus_one_assign::<_, BE>(p, &mut r, 1, &mut tmp[..NN]),
            8 => vec_znx_normalize_assign::<_, BE>(b, &mut r, 1, &mut tmp[..NN]),
            9 => vec_znx_rsh::<_, _, BE, false>(b, k, &mut r, 1, &av, 0, &mut tmp[..2 * NN]),
            _ => vec_znx_lsh_sub::<_, _, BE>(b, k, &mut r, 1, &av, 0, &mut tmp[..NN]),
        }
    }
    same(&r1, &r2);
    vsym::reached();
}

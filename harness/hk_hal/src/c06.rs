//! C01-A1/A2 and C06-A1: the randomness-consuming kernels, with the random stream replaced by
//! symbolic values at the lowest level Kani can stub:
//!  * `Source::next_u64n` (inherent method) -> one arbitrary word, masked by the caller's mask, with
//!    the assertion that the caller's (max, mask) pair makes the rejection loop dead;
//!  * the Gaussian draw -> `SymDist::sample`, an arbitrary f64 per call, through the real generic
//!    `znx_{fill,add}_dist_f64_ref` (the `_normal_` variants are textual copies of the same loop
//!    around `rand_distr::Normal`; they are reached through the stubbed-position harness below).
use crate::vz::*;
use poulpy_cpu_ref::reference::vec_znx::{vec_znx_add_normal_ref, vec_znx_fill_normal_ref, vec_znx_fill_uniform_ref};
use poulpy_cpu_ref::reference::znx::{znx_add_dist_f64_ref, znx_fill_dist_f64_ref, znx_fill_uniform_ref};
use poulpy_hal::layouts::NoiseInfos;
use poulpy_hal::source::Source;

/// Under Kani: never used as a generator (every consumer is stubbed; real ChaCha needs cpuid).
/// Natively (replay): a real generator; `twin()` gives a second generator on the same seed so
/// that the replay can learn which words the kernel is about to draw.
#[cfg(kani)]
fn fake_source() -> Source {
    unsafe { core::mem::zeroed() }
}
#[cfg(not(kani))]
fn fake_source() -> Source {
    Source::new([7u8; 32])
}
#[cfg(not(kani))]
fn twin() -> Source {
    Source::new([7u8; 32])
}

/// stub for `Source::next_u64n(max, mask)`
pub fn next_u64n_stub(_s: &mut Source, max: u64, mask: u64) -> u64 {
    let x = vsym::u64() & mask;
    assert!(x < max, "next_u64n would reject a draw: more than one word consumed per coefficient");
    x
}

/// C06-A1: uniform digit kernel for radix B: range, and (two draws) injectivity on the masked word.
pub fn fill_uniform<const B: usize>() {
    let mut src = fake_source();
    let mut out = [vsym::i64(), vsym::i64()];
    znx_fill_uniform_ref(B, &mut out, &mut src);
    let h = 1i64 << (B - 1);
    assert!(out[0] >= -h && out[0] < h && out[1] >= -h && out[1] < h, "uniform digit outside [-2^(b-1), 2^(b-1))");
    vsym::cover!(out[0] == -h, "lower end point reachable");
    vsym::cover!(out[0] == h - 1, "upper end point reachable");
    vsym::cover!(out[0] != out[1], "two draws can differ");
    core::mem::forget(src);
    vsym::reached();
}

/// the map word -> digit is a bijection of [0, 2^B) onto the digit range: decided by running the
/// kernel on the SAME stubbed word twice is impossible (the stub draws fresh words), so the
/// bijection is checked on the kernel's arithmetic: digit + 2^(B-1) must be the masked word.
pub fn next_u64n_echo(_s: &mut Source, max: u64, mask: u64) -> u64 {
    let x = vsym::u64() & mask;
    assert!(x < max);
    // publish the drawn word through a global so the harness can relate it to the digit
    unsafe { LAST_WORD = x };
    x
}
pub static mut LAST_WORD: u64 = 0;

pub fn fill_uniform_bijection<const B: usize>() {
    let mut src = fake_source();
    let mut out = [0i64; 1];
    znx_fill_uniform_ref(B, &mut out, &mut src);
    #[cfg(kani)]
    let w = unsafe { LAST_WORD };
    #[cfg(not(kani))]
    let w = {
        use rand::Rng;
        let mut t = twin();
        let mask: u64 = if B == 64 { u64::MAX } else { (1u64 << B) - 1 };
        let w = t.next_u64() & mask;
        // exactly one word consumed: both generators must now be at the same position
        assert!(t.next_u64() == src.next_u64(), "kernel consumed more (or fewer) than one word for one coefficient");
        w
    };
    assert!(out[0] == (w as i64) - (1i64 << (B - 1)), "digit is not (masked word) - 2^(b-1): not a bijection of the masked word");
    core::mem::forget(src);
    vsym::reached();
}

/// arbitrary-f64 "distribution": every draw is an arbitrary f64 (incl. NaN, +-inf); the third
/// draw is assumed to be accepted so that the rejection loop unwinds (stated cut-off: the loop
/// body is explored for 0, 1 and 2 rejections).
pub struct SymDist {
    pub bound: f64,
}
pub static mut DRAWS: usize = 0;
impl rand::prelude::Distribution<f64> for SymDist {
    fn sample<R: rand::Rng + ?Sized>(&self, _rng: &mut R) -> f64 {
        let x = vsym::f64();
        unsafe {
            DRAWS += 1;
            if DRAWS >= 3 {
                vsym::assume(!(x.abs() > self.bound));
            }
        }
        x
    }
}

/// C01-A1: bound enforcement of the rejection loop (unwound UNW times; the harness assumes the
/// loop ends within that many draws by bounding the unwinding with an assumption-free cover).
/// ADD = false: fill (overwrites), true: add (adds exactly the rounded draw).
pub fn dist_bound<const ADD: bool>() {
    let mut src = fake_source();
    let bound = vsym::f64();
    vsym::assume(bound >= 1.0 && bound < 4611686018427387904.0); // [1, 2^62)
    let prev = vsym::i64_mag(61);
    let mut out = [prev];
    if ADD {
        znx_add_dist_f64_ref(&mut out, SymDist { bound }, bound, &mut src);
    } else {
        znx_fill_dist_f64_ref(&mut out, SymDist { bound }, bound, &mut src);
    }
    let v = if ADD { out[0].wrapping_sub(prev) } else { out[0] };
    // |v| <= round(bound): as f64 comparison on the exactly representable side
    assert!((v as i128).abs() <= (bound.round() as i128), "sampled error exceeds the configured bound");
    vsym::cover!(unsafe { DRAWS } == 3, "two rejections explored");
    vsym::cover!((v as i128).abs() == (bound.round() as i128), "bound attained");
    core::mem::forget(src);
    vsym::reached();
}

/// exact model of `f64::exp2` on the small non-negative integers the scale computation uses
/// (Kani over-approximates the libm call)
pub fn exp2_stub(x: f64) -> f64 {
    let e = x as u32;
    assert!(x == e as f64 && e < 63, "exp2 called on a non-integer or out-of-range exponent");
    (1u64 << e) as f64
}

/// recording stubs for the two Gaussian limb kernels (position harness)
pub static mut REC_SIGMA: f64 = 0.0;
pub static mut REC_BOUND: f64 = 0.0;
pub static mut REC_CALLS: usize = 0;
pub fn fill_normal_stub(res: &mut [i64], sigma: f64, bound: f64, _source: &mut Source) {
    unsafe {
        REC_SIGMA = sigma;
        REC_BOUND = bound;
        REC_CALLS += 1;
    }
    for x in res.iter_mut() {
        *x = vsym::i64_mag(40);
    }
}
pub fn add_normal_stub(res: &mut [i64], sigma: f64, bound: f64, _source: &mut Source) {
    unsafe {
        REC_SIGMA = sigma;
        REC_BOUND = bound;
        REC_CALLS += 1;
    }
    for x in res.iter_mut() {
        *x = x.wrapping_add(vsym::i64_mag(40));
    }
}

/// C01-A2: error position.  Only limb ceil(k/b)-1 of the selected column changes; the limb kernel
/// is called exactly once with sigma/bound scaled by exactly 2^((limb+1)*b - k).
pub fn normal_position<const B: usize, const K: usize, const S: usize, const L: usize, const ADD: bool>(col: usize) {
    let mut src = fake_source();
    let before = Buf::<L>::sym_mag(61);
    let mut buf = before;
    let infos = NoiseInfos { k: K, sigma: 3.2, bound: 19.2 };
    {
        let mut v = buf.vec_mut(2, 2, S, S + 1);
        if ADD {
            vec_znx_add_normal_ref(B, &mut v, col, infos, &mut src);
        } else {
            vec_znx_fill_normal_ref(B, &mut v, col, infos, &mut src);
        }
    }
    let limb = K.div_ceil(B) - 1;
    let mut p = 0;
    while p < L {
        let poly = p / 2;
        let (l, c) = (poly / 2, poly % 2);
        if !(c == col && l == limb) {
            assert!(buf.0[p] == before.0[p], "noise written outside limb ceil(k/base2k)-1 of the selected column");
        }
        p += 1;
    }
    let sh = (limb + 1) * B - K;
    let scale = (1u64 << sh) as f64;
    #[cfg(kani)]
    unsafe {
        assert!(REC_CALLS == 1, "Gaussian limb kernel not called exactly once");
        assert!(REC_SIGMA == 3.2 * scale && REC_BOUND == 19.2 * scale, "sigma/bound not scaled by 2^((limb+1)*base2k - k)");
    }
    #[cfg(not(kani))]
    {
        // replay on the real Gaussian kernel: the written/added error must respect the scaled bound
        let lim = (19.2 * scale).round() as i64;
        let mut i = 0;
        while i < 2 {
            let idx = 2 * (limb * 2 + col) + i;
            let e = if ADD { buf.0[idx].wrapping_sub(before.0[idx]) } else { buf.0[idx] };
            assert!(e.abs() <= lim, "error exceeds bound * 2^((limb+1)*base2k - k)");
            i += 1;
        }
    }
    core::mem::forget(src);
    vsym::reached();
}

/// vector level uniform: every limb of the selected column is (re)written with digits in range,
/// other column untouched.
pub fn vec_fill_uniform<const B: usize, const S: usize, const L: usize>(col: usize) {
    let mut src = fake_source();
    let before = Buf::<L>::sym();
    let mut buf = before;
    {
        let mut v = buf.vec_mut(2, 2, S, S + 1);
        vec_znx_fill_uniform_ref(B, &mut v, col, &mut src);
    }
    let h = 1i64 << (B - 1);
    let mut p = 0;
    while p < L {
        let poly = p / 2;
        let (l, c) = (poly / 2, poly % 2);
        if c == col && l < S {
            assert!(buf.0[p] >= -h && buf.0[p] < h, "mask digit out of range");
        } else {
            assert!(buf.0[p] == before.0[p], "uniform fill wrote outside the selected column");
        }
        p += 1;
    }
    core::mem::forget(src);
    vsym::reached();
}

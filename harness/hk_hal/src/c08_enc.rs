//! C08-A3: integer encoding / decoding of `poulpy-hal/src/layouts/encoding.rs`.
//! Radix B and precision K concrete per instance; values symbolic.  Object: n = 2, 2 columns,
//! `ceil(K/B)` active limbs + 1 spare active limb + 1 capacity limb; all prior content symbolic.
//!   (i)  decode(encode(v)) == v            whenever |v| < 2^(K-2)
//!   (ii) decode(encode(v)) ≡ v (mod 2^K)    for every |v| < 2^61
//!   (iii) limbs are normalised digits and represent v * 2^-K on the torus exactly
//!   (iv) other column / other coefficient / capacity limb untouched
use crate::spec::*;
use crate::vz::*;

const N: usize = 2;
const COLS: usize = 2;

#[inline(always)]
fn congruent(a: i128, b: i128, k: usize) -> bool {
    center_i128(a.wrapping_sub(b), k as u32) == 0
}

/// MODE 0: encode_vec_i64/decode_vec_i64; 1: encode_coeff_i64/decode_coeff_i64 (idx concrete);
/// 2: encode_coeff_i64 then decode_vec_i64 (the two decoders must agree).
pub fn roundtrip_i64<const B: usize, const K: usize, const S: usize, const L: usize, const MODE: usize>(col: usize, idx: usize) {
    // S = ceil(K/B) + 1 active limbs, max_size = S + 1
    let before = Buf::<L>::sym();
    let mut buf = before;
    let v0 = vsym::i64_mag(61);
    let v1 = vsym::i64_mag(61);
    let small = K >= 3 && v0 > -(1i64 << (K - 2)) && v0 < (1i64 << (K - 2)) && v1 > -(1i64 << (K - 2)) && v1 < (1i64 << (K - 2));
    let mut out = [0i64; N];
    {
        let mut v = buf.vec_mut(N, COLS, S, S + 1);
        match MODE {
            0 => {
                v.encode_vec_i64(B, col, K, &[v0, v1]);
                v.decode_vec_i64(B, col, K, &mut out);
            }
            1 => {
                v.encode_coeff_i64(B, col, K, idx, v0);
                out[idx] = v.decode_coeff_i64(B, col, K, idx);
            }
            _ => {
                v.encode_coeff_i64(B, col, K, idx, v0);
                let c = v.decode_coeff_i64(B, col, K, idx);
                // decode_vec reads both coefficients; make the other one well defined first
                v.encode_coeff_i64(B, col, K, 1 - idx, v1);
                v.decode_vec_i64(B, col, K, &mut out);
                assert!(out[idx] == c, "decode_coeff_i64 and decode_vec_i64 disagree");
                assert!(v.decode_coeff_i64(B, col, K, idx) == c, "encoding another coefficient changed this one");
            }
        }
    }
    let want = if MODE == 0 { [v0, v1] } else if idx == 0 { [v0, v1] } else { [v1, v0] };
    let check = |i: usize, v: i64| {
        assert!(congruent(out[i] as i128, v as i128, K), "decode(encode(v)) is not congruent to v modulo 2^k");
        if small {
            assert!(out[i] == v, "decode(encode(v)) != v although |v| < 2^(k-2)");
        }
    };
    match MODE {
        0 | 2 => {
            check(0, want[0]);
            check(1, want[1]);
        }
        _ => check(idx, v0),
    }
    // limbs: normalised, torus value v / 2^K exactly (mod 1); limbs past ceil(K/B) are zero
    let size = K.div_ceil(B);
    let upto = if MODE == 1 { 1 } else { N };
    let mut c = 0;
    while c < upto {
        let i = if MODE == 1 { idx } else { c };
        let v = if MODE == 1 { v0 } else { want[i] };
        let mut limbs = [0i64; 8];
        let mut j = 0;
        while j < S {
            limbs[j] = buf.at(N, COLS, col, j, i);
            assert!(in_digit_range(B, limbs[j]), "encoded limb is not a normalised digit");
            if j >= size {
                assert!(limbs[j] == 0, "limb past ceil(k/base2k) not zero");
            }
            j += 1;
        }
        let r = horner_w256(&limbs[..size], B);
        assert!(torus_rel(r, size * B, W256::from_i64(v), K, 0), "encoded limbs do not represent v * 2^-k");
        c += 1;
    }
    // frame: other column untouched, capacity limb untouched, (coeff form) other coefficient untouched
    let mut p = 0;
    while p < L {
        let poly = p / N;
        let limb = poly / COLS;
        let cc = poly % COLS;
        let coeff = p % N;
        let selected = cc == col && limb < S && (MODE != 1 || coeff == idx);
        if !selected {
            assert!(buf.0[p] == before.0[p], "encode wrote outside its column / coefficient");
        }
        p += 1;
    }
    vsym::reached();
}

pub fn roundtrip_i128<const B: usize, const K: usize, const S: usize, const L: usize>(col: usize) {
    let before = Buf::<L>::sym();
    let mut buf = before;
    let v0 = vsym::i128();
    let v1 = vsym::i128();
    vsym::assume(v0 > -(1i128 << 120) && v0 < (1i128 << 120));
    vsym::assume(v1 > -(1i128 << 120) && v1 < (1i128 << 120));
    let small = K >= 3 && v0 > -(1i128 << (K - 2)) && v0 < (1i128 << (K - 2)) && v1 > -(1i128 << (K - 2)) && v1 < (1i128 << (K - 2));
    let mut out = [0i128; N];
    {
        let mut v = buf.vec_mut(N, COLS, S, S + 1);
        v.encode_vec_i128(B, col, K, &[v0, v1]);
        v.decode_vec_i128(B, col, K, &mut out);
    }
    assert!(congruent(out[0], v0, K) && congruent(out[1], v1, K), "decode_vec_i128(encode_vec_i128(v)) not congruent to v mod 2^k");
    if small {
        assert!(out[0] == v0 && out[1] == v1, "i128 round trip not exact although |v| < 2^(k-2)");
    }
    let mut p = 0;
    while p < L {
        let poly = p / N;
        let limb = poly / COLS;
        let cc = poly % COLS;
        if !(cc == col && limb < S) {
            assert!(buf.0[p] == before.0[p], "encode_vec_i128 wrote outside its column");
        } else {
            assert!(in_digit_range(B, buf.0[p]), "encoded limb is not a normalised digit");
        }
        p += 1;
    }
    vsym::reached();
}


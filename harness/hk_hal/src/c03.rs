//! C03-A1: Galois-element arithmetic of `poulpy-hal/src/layouts/module.rs`
//! (`galois_element`, `GaloisElement::galois_element_inv`, `mod_exp_u64`).
//! Ring degree N = 2^LOGN concrete per instance; generator exponents / Galois elements symbolic.
use poulpy_cpu_ref::FFT64Ref;
use poulpy_hal::layouts::{galois_element, GaloisElement, Module};

/// homomorphism law that pins galois_element(g) = sign(g) * 5^|g| mod 2N:
///   ge(0) = 1, ge(1) = 5 mod 2N, ge(g1) * ge(g2) ≡ ge(g1 + g2) (mod 2N) for g1, g2 >= 0,
///   ge(-g) = -ge(g), every value odd and inside (-2N, 2N).
pub fn galois_law<const LOGN: usize>() {
    let n: i64 = 1 << LOGN;
    let two_n = 2 * n;
    let mask = two_n - 1;
    let g1 = vsym::i64();
    let g2 = vsym::i64();
    vsym::assume(g1 >= 0 && g1 < (1 << 12) && g2 >= 0 && g2 < (1 << 12));
    let (e1, e2, e12) = (galois_element(g1, two_n), galois_element(g2, two_n), galois_element(g1 + g2, two_n));
    assert!(galois_element(0, two_n) == 1);
    assert!(galois_element(1, two_n) == 5 & mask, "generator is not 5");
    assert!(e1 > 0 && e1 < two_n && (e1 & 1) == 1, "galois element not an odd residue in (0, 2N)");
    assert!((e1.wrapping_mul(e2)) & mask == e12 & mask, "galois_element is not multiplicative: ge(g1)*ge(g2) != ge(g1+g2) mod 2N");
    if g1 != 0 {
        assert!(galois_element(-g1, two_n) == -e1, "signed generator convention: ge(-g) != -ge(g)");
    }
    vsym::reached();
}

/// inverse: for every odd el in (-2N, 2N): el * inv(el) ≡ 1 (mod 2N), inv(el) odd, same sign, inside (-2N, 2N).
pub fn galois_inv<const LOGN: usize>() {
    let n: i64 = 1 << LOGN;
    let two_n = 2 * n;
    let mask = two_n - 1;
    let module: Module<FFT64Ref> = Module::<FFT64Ref>::new_marker(n as u64);
    let el = vsym::i64();
    vsym::assume(el > -two_n && el < two_n && (el & 1) == 1);
    let inv = module.galois_element_inv(el);
    assert!(inv > -two_n && inv < two_n && (inv & 1) == 1, "inverse not an odd residue in (-2N, 2N)");
    assert!((inv > 0) == (el > 0), "inverse changes the sign convention");
    assert!((el.wrapping_mul(inv)) & mask == 1, "el * inv(el) != 1 mod 2N");
    // consistency with galois_element: inverse of ge(g) is a Galois element of the same family
    vsym::reached();
}

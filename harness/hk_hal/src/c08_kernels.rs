//! C08-A1: per-coefficient normalisation / power-of-two kernels of
//! `poulpy-cpu-ref/src/reference/znx/{normalization,mul}.rs`.
//!
//! Shape (base2k = B) is a const generic enumerated by the driver; the intra-limb
//! shift `lsh` and all data are symbolic.  Domain: |a|, |c_in|, |x_prev| < 2^61.
//! Specification (exact integers; in the domain nothing wraps, so the wrapping-i64
//! form below is the mathematical identity):
//!   first :  a * 2^lsh          = x_digit + c_out * 2^B
//!   middle:  a * 2^lsh + c_in   = x_digit + c_out * 2^B,   x_digit in [-2^(B-1), 2^(B-1))
//!   final :  x_digit ≡ a * 2^lsh + c_in (mod 2^B),          x_digit in range
use crate::spec::*;
use poulpy_cpu_ref::reference::znx::*;

fn sym_lsh<const B: usize>() -> usize {
    let lsh = vsym::usize();
    vsym::assume(lsh < B);
    lsh
}

#[inline(always)]
fn shl(x: i64, s: usize) -> i64 {
    x.wrapping_shl(s as u32)
}

/// a*2^lsh == x + c*2^B  (wrapping), i.e. exact in the domain
#[inline(always)]
fn relation<const B: usize>(a: i64, lsh: usize, c_in: i64, x: i64, c_out: i64) -> bool {
    shl(a, lsh).wrapping_add(c_in) == x.wrapping_add(shl(c_out, B))
}

pub fn first_step_carry_only<const B: usize>() {
    let lsh = sym_lsh::<B>();
    let a = vsym::i64_mag(HEADROOM_BITS);
    let mut c = [vsym::i64()];
    znx_normalize_first_step_carry_only_ref(B, lsh, &[a], &mut c);
    // a = d + c * 2^(B-lsh), d balanced digit of width B-lsh
    let d = a.wrapping_sub(shl(c[0], B - lsh));
    assert!(in_digit_range(B - lsh, d));
    assert!(c[0] > -(1i64 << 62) && c[0] < (1i64 << 62));
    vsym::reached();
}

pub fn first_step_assign<const B: usize>() {
    let lsh = sym_lsh::<B>();
    let a = vsym::i64_mag(HEADROOM_BITS);
    let mut x = [a];
    let mut c = [vsym::i64()];
    znx_normalize_first_step_assign_ref(B, lsh, &mut x, &mut c);
    assert!(relation::<B>(a, lsh, 0, x[0], c[0]));
    assert!(in_digit_range(B, x[0]));
    // x is a multiple of 2^lsh
    assert!(shl(x[0] >> lsh, lsh) == x[0]);
    vsym::reached();
}

pub fn first_step<const B: usize, const OVERWRITE: bool>() {
    let lsh = sym_lsh::<B>();
    let a = vsym::i64_mag(HEADROOM_BITS);
    let x0 = vsym::i64_mag(HEADROOM_BITS);
    let mut x = [x0];
    let mut c = [vsym::i64()];
    znx_normalize_first_step_ref::<OVERWRITE>(B, lsh, &mut x, &[a], &mut c);
    let d = if OVERWRITE { x[0] } else { x[0].wrapping_sub(x0) };
    assert!(relation::<B>(a, lsh, 0, d, c[0]));
    assert!(in_digit_range(B, d));
    vsym::reached();
}

pub fn middle_step_carry_only<const B: usize>() {
    let lsh = sym_lsh::<B>();
    let a = vsym::i64_mag(HEADROOM_BITS);
    let c0 = vsym::i64_mag(HEADROOM_BITS);
    let mut c = [c0];
    znx_normalize_middle_step_carry_only_ref(B, lsh, &[a], &mut c);
    let d = shl(a, lsh).wrapping_add(c0).wrapping_sub(shl(c[0], B));
    assert!(in_digit_range(B, d));
    vsym::reached();
}

pub fn middle_step_assign<const B: usize>() {
    let lsh = sym_lsh::<B>();
    let a = vsym::i64_mag(HEADROOM_BITS);
    let c0 = vsym::i64_mag(HEADROOM_BITS);
    let mut x = [a];
    let mut c = [c0];
    znx_normalize_middle_step_assign_ref(B, lsh, &mut x, &mut c);
    assert!(relation::<B>(a, lsh, c0, x[0], c[0]));
    assert!(in_digit_range(B, x[0]));
    vsym::reached();
}

pub fn middle_step<const B: usize, const OVERWRITE: bool>() {
    let lsh = sym_lsh::<B>();
    let a = vsym::i64_mag(HEADROOM_BITS);
    let c0 = vsym::i64_mag(HEADROOM_BITS);
    let x0 = vsym::i64_mag(HEADROOM_BITS);
    let mut x = [x0];
    let mut c = [c0];
    znx_normalize_middle_step_ref::<OVERWRITE>(B, lsh, &mut x, &[a], &mut c);
    let d = if OVERWRITE { x[0] } else { x[0].wrapping_sub(x0) };
    assert!(relation::<B>(a, lsh, c0, d, c[0]));
    assert!(in_digit_range(B, d));
    vsym::reached();
}

pub fn middle_step_sub<const B: usize>() {
    let lsh = sym_lsh::<B>();
    let a = vsym::i64_mag(HEADROOM_BITS);
    let c0 = vsym::i64_mag(HEADROOM_BITS);
    let x0 = vsym::i64_mag(HEADROOM_BITS);
    let mut x = [x0];
    let mut c = [c0];
    znx_normalize_middle_step_sub_ref(B, lsh, &mut x, &[a], &mut c);
    let d = x0.wrapping_sub(x[0]);
    assert!(relation::<B>(a, lsh, c0, d, c[0]));
    assert!(in_digit_range(B, d));
    vsym::reached();
}

#[inline(always)]
fn final_ok<const B: usize>(a: i64, lsh: usize, c0: i64, d: i64) -> bool {
    // d ≡ a*2^lsh + c0 (mod 2^B) and d balanced
    let diff = shl(a, lsh).wrapping_add(c0).wrapping_sub(d);
    in_digit_range(B, d) && shl(diff >> B, B) == diff
}

pub fn final_step_assign<const B: usize>() {
    let lsh = sym_lsh::<B>();
    let a = vsym::i64_mag(HEADROOM_BITS);
    let c0 = vsym::i64_mag(HEADROOM_BITS);
    let mut x = [a];
    let mut c = [c0];
    znx_normalize_final_step_assign_ref(B, lsh, &mut x, &mut c);
    assert!(final_ok::<B>(a, lsh, c0, x[0]));
    vsym::reached();
}

pub fn final_step<const B: usize, const OVERWRITE: bool>() {
    let lsh = sym_lsh::<B>();
    let a = vsym::i64_mag(HEADROOM_BITS);
    let c0 = vsym::i64_mag(HEADROOM_BITS);
    let x0 = vsym::i64_mag(HEADROOM_BITS);
    let mut x = [x0];
    let mut c = [c0];
    znx_normalize_final_step_ref::<OVERWRITE>(B, lsh, &mut x, &[a], &mut c);
    let d = if OVERWRITE { x[0] } else { x[0].wrapping_sub(x0) };
    assert!(final_ok::<B>(a, lsh, c0, d));
    vsym::reached();
}

pub fn final_step_sub<const B: usize>() {
    let lsh = sym_lsh::<B>();
    let a = vsym::i64_mag(HEADROOM_BITS);
    let c0 = vsym::i64_mag(HEADROOM_BITS);
    let x0 = vsym::i64_mag(HEADROOM_BITS);
    let mut x = [x0];
    let mut c = [c0];
    znx_normalize_final_step_sub_ref(B, lsh, &mut x, &[a], &mut c);
    let d = x0.wrapping_sub(x[0]);
    assert!(final_ok::<B>(a, lsh, c0, d));
    vsym::reached();
}

/// `znx_extract_digit_addmul_ref(take, scale, res, src)`: src = d + src' * 2^take,
/// d balanced of width `take`; res' = res + d * 2^scale.  `take` is the const
/// generic, `scale` symbolic in [0, 62 - take].
pub fn extract_digit_addmul<const B: usize>() {
    let lsh = vsym::usize();
    vsym::assume(lsh <= 62 - B);
    let s0 = vsym::i64_mag(HEADROOM_BITS);
    let r0 = vsym::i64_mag(HEADROOM_BITS);
    let mut res = [r0];
    let mut src = [s0];
    znx_extract_digit_addmul_ref(B, lsh, &mut res, &mut src);
    let d = s0.wrapping_sub(shl(src[0], B));
    assert!(in_digit_range(B, d));
    assert!(res[0] == r0.wrapping_add(shl(d, lsh)));
    vsym::reached();
}

/// `znx_normalize_digit_ref(b, res, src)`: res = res' + (src' - src) * 2^b, res' balanced.
pub fn normalize_digit<const B: usize>() {
    let s0 = vsym::i64_mag(HEADROOM_BITS);
    let r0 = vsym::i64_mag(HEADROOM_BITS);
    let mut res = [r0];
    let mut src = [s0];
    znx_normalize_digit_ref(B, &mut res, &mut src);
    assert!(in_digit_range(B, res[0]));
    assert!(r0 == res[0].wrapping_add(shl(src[0].wrapping_sub(s0), B)));
    vsym::reached();
}

/// `get_digit_i64` / `get_carry_i64` over the FULL i64 range: x ≡ d (mod 2^B), d balanced,
/// and whenever x - d does not wrap, x = d + c*2^B.
pub fn digit_carry<const B: usize>() {
    let x = vsym::i64();
    let d = get_digit_i64(B, x);
    let c = get_carry_i64(B, x, d);
    assert!(in_digit_range(B, d));
    let diff = x.wrapping_sub(d);
    assert!(shl(diff >> B, B) == diff);
    if x.checked_sub(d).is_some() {
        assert!(shl(c, B).wrapping_add(d) == x);
        // |c| <= 2^(63-B)
        assert!((c as i128) <= (1i128 << (63 - B)) && (c as i128) >= -(1i128 << (63 - B)));
    }
    vsym::reached();
}

/// i128 digit/carry (big accumulator of the NTT120 family), |x| < 2^120.
pub fn digit_carry_i128<const B: usize>() {
    let x = vsym::i128();
    vsym::assume(x > -(1i128 << 120) && x < (1i128 << 120));
    let d = get_digit_i128(B, x);
    let c = get_carry_i128(B, x, d);
    let h = 1i128 << (B - 1);
    assert!(d >= -h && d < h);
    assert!(c.wrapping_shl(B as u32).wrapping_add(d) == x);
    vsym::reached();
}

/// Power-of-two multiplication kernels, K concrete (enumerated), data symbolic.
/// K > 0: y = x * 2^K (wrapping shift, exact when no overflow);
/// K < 0: y = round(x / 2^|K|), ties away from zero (as implemented; any nearest
///        rounding satisfies the property's 1-ulp statement; the tie rule is asserted as
///        "|y*2^|K| - x| <= 2^(|K|-1)").
pub fn mul_power_of_two<const KP: usize, const NEG: bool, const MODE: usize>() {
    let k: i64 = if NEG { -(KP as i64) } else { KP as i64 };
    let x = vsym::i64_mag(HEADROOM_BITS);
    let r0 = vsym::i64_mag(HEADROOM_BITS);
    if !NEG && KP > 0 {
        // exact (non-wrapping) domain of a left shift: x*2^K fits the headroom
        vsym::assume(x > -(1i64 << (61 - KP)) && x < (1i64 << (61 - KP)));
    }
    let y: i64 = match MODE {
        0 => {
            let mut res = [r0];
            znx_mul_power_of_two_ref(k, &mut res, &[x]);
            res[0]
        }
        1 => {
            let mut res = [x];
            znx_mul_power_of_two_assign_ref(k, &mut res);
            res[0]
        }
        _ => {
            let mut res = [r0];
            znx_mul_add_power_of_two_ref(k, &mut res, &[x]);
            res[0].wrapping_sub(r0)
        }
    };
    if !NEG {
        assert!(y == shl(x, KP));
    } else {
        let err = (y as i128) * (1i128 << KP) - (x as i128);
        let half = 1i128 << (KP - 1);
        assert!(err >= -half && err <= half);
    }
    vsym::reached();
}

//! Specification helpers shared by harnesses (written from the mathematical
//! definitions, not from the code under test).

/// Headroom domain for un-normalised limbs / carries: |x| < 2^61 (DESIGN §4).
pub const HEADROOM_BITS: u32 = 61;

#[inline(always)]
pub fn in_digit_range(b: usize, x: i64) -> bool {
    // [-2^(b-1), 2^(b-1))
    if b >= 64 {
        return true;
    }
    let h: i64 = 1i64 << (b - 1);
    x >= -h && x < h
}

/// Centered residue of `x` modulo 2^bits (bits in 1..=127): the representative in
/// [-2^(bits-1), 2^(bits-1)).
#[inline(always)]
pub fn center_i128(x: i128, bits: u32) -> i128 {
    let sh = 128 - bits;
    (x << sh) >> sh
}

/// Integer value of a limb vector (most significant limb first), wrapping i128:
/// sum_j limbs[j] * 2^((len-1-j)*b).
#[inline(always)]
pub fn horner_i128(limbs: &[i64], b: usize) -> i128 {
    let mut acc: i128 = 0;
    for &l in limbs {
        acc = acc.wrapping_shl(b as u32).wrapping_add(l as i128);
    }
    acc
}

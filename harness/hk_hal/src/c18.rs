//! C18-A1 (poulpy-hal types): `read_from` on arbitrary streams.
//! Receiver concrete and small; stream bytes fully symbolic (so every header word takes every
//! 64-bit value, incl. products that overflow usize); stream LENGTH concrete per instance
//! (= every truncation point of interest).  `std::fmt::format` stubbed (error-path messages),
//! the io::Result is forgotten (its drop glue explodes the solver).
//! Assertions: no panic / overflow / out-of-bounds (Kani's own checks);
//!   Err  => receiver metadata unchanged;
//!   Ok   => size <= max_size, n*cols*max_size*8 (checked) <= data.len()  [hence n*cols*size*8 too],
//!           and every public accessor stays inside the buffer.
use crate::vz::*;
use poulpy_hal::layouts::{MatZnx, ReaderFrom, ScalarZnx, VecZnx, WriterTo, ZnxInfos, ZnxView};

/// replacement for `alloc::fmt::format` (messages are not the subject)
pub fn fmt_stub(_args: core::fmt::Arguments<'_>) -> String {
    String::new()
}

/// exact value of 8 * prod(dims), saturating at u128::MAX (a zero factor gives zero)
fn bytes_exact(dims: &[usize]) -> u128 {
    let mut acc: u128 = 8;
    for d in dims {
        acc = acc.saturating_mul(*d as u128);
    }
    acc
}

/// VecZnx receiver: n=2, cols=1, size=1 active of max_size=2 (32-byte buffer); stream of SLEN bytes.
pub fn vec_znx_read<const SLEN: usize>() {
    let mut buf = Buf::<4>::sym();
    let stream = vsym::arr_u8::<SLEN>();
    let mut v: VecZnx<&mut [u8]> = VecZnx { data: buf.bytes_mut(), n: 2, cols: 1, size: 1, max_size: 2 };
    let mut rd: &[u8] = &stream[..];
    let r = v.read_from(&mut rd);
    let ok = r.is_ok();
    core::mem::forget(r);
    if !ok {
        assert!(v.n == 2 && v.cols == 1 && v.size == 1 && v.max_size == 2, "read_from failed but changed the receiver's metadata");
    } else {
        assert!(v.size <= v.max_size, "read_from Ok but size > max_size");
        assert!(bytes_exact(&[v.n, v.cols, v.max_size]) <= 32, "read_from Ok but n*cols*max_size*8 exceeds the buffer");
        // accessors on the accepted object stay in bounds (Kani checks the pointer arithmetic)
        if v.size > 0 && v.cols > 0 && v.n > 0 {
            let s = v.at(v.cols - 1, v.size - 1);
            assert!(s.len() == v.n);
            let _x = s[v.n - 1];
        }
        if v.n > 0 {
            let _ = v.raw().len();
        }
        vsym::cover!(v.size == 2, "accepted a 2-limb object");
    }
    vsym::reached();
}

/// ScalarZnx receiver: n=2, cols=1 (16-byte buffer)
pub fn scalar_znx_read<const SLEN: usize>() {
    let mut buf = Buf::<2>::sym();
    let stream = vsym::arr_u8::<SLEN>();
    let mut v: ScalarZnx<&mut [u8]> = ScalarZnx { data: buf.bytes_mut(), n: 2, cols: 1 };
    let mut rd: &[u8] = &stream[..];
    let r = v.read_from(&mut rd);
    let ok = r.is_ok();
    core::mem::forget(r);
    if !ok {
        assert!(v.n == 2 && v.cols == 1, "read_from failed but changed the receiver's metadata");
    } else {
        assert!(bytes_exact(&[v.n, v.cols]) <= 16, "read_from Ok but n*cols*8 exceeds the buffer");
        if v.cols > 0 && v.n > 0 {
            let s = v.at(v.cols - 1, 0);
            let _x = s[v.n - 1];
        }
    }
    vsym::reached();
}

/// MatZnx receiver: n=2, rows=1, cols_in=1, cols_out=1, size=1 (16-byte buffer)
pub fn mat_znx_read<const SLEN: usize>() {
    let mut buf = Buf::<2>::sym();
    let stream = vsym::arr_u8::<SLEN>();
    let mut v: MatZnx<&mut [u8]> = MatZnx::from_data(buf.bytes_mut(), 2, 1, 1, 1, 1);
    let mut rd: &[u8] = &stream[..];
    let r = v.read_from(&mut rd);
    let ok = r.is_ok();
    core::mem::forget(r);
    if !ok {
        assert!(v.n() == 2 && v.rows() == 1 && v.cols_in() == 1 && v.cols_out() == 1 && v.size() == 1, "read_from failed but changed the receiver's metadata");
    } else {
        assert!(bytes_exact(&[v.n(), v.rows(), v.cols_in(), v.cols_out(), v.size()]) <= 16, "read_from Ok but the dimensions exceed the buffer");
    }
    vsym::reached();
}

/// Round trip: a VecZnx (n=2, cols=2, size=1 of max 2, symbolic content) written and read back
/// into (BIG=false) an equal-capacity or (BIG=true) a larger receiver reproduces the content and
/// dimensions, and leaves the receiver consistent.
pub fn vec_znx_roundtrip<const BIG: bool>() {
    let src = Buf::<8>::sym();
    let v = src.vec(2, 2, 1, 2);
    let mut bytes = [0u8; 40 + 32];
    {
        let mut w: &mut [u8] = &mut bytes[..];
        let r = v.write_to(&mut w);
        assert!(r.is_ok(), "write_to failed on a valid object");
        core::mem::forget(r);
    }
    let mut dst = Buf::<12>::sym();
    let mut d: VecZnx<&mut [u8]> = if BIG {
        VecZnx { data: dst.bytes_mut(), n: 2, cols: 2, size: 3, max_size: 3 }
    } else {
        VecZnx { data: &mut dst.bytes_mut()[..64], n: 2, cols: 2, size: 2, max_size: 2 }
    };
    let mut rd: &[u8] = &bytes[..];
    let r = d.read_from(&mut rd);
    assert!(r.is_ok(), "read_from failed on a stream produced by write_to with a receiver of sufficient capacity");
    core::mem::forget(r);
    assert!(d.n == 2 && d.cols == 2 && d.size == 1);
    assert!(d.size <= d.max_size);
    let len = if BIG { 96 } else { 64 };
    assert!(d.n * d.cols * d.max_size * 8 <= len, "capacity after read exceeds the receiver's buffer");
    let mut c = 0;
    while c < 2 {
        let mut i = 0;
        while i < 2 {
            assert!(d.at(c, 0)[i] == v.at(c, 0)[i], "content differs after the round trip");
            i += 1;
        }
        c += 1;
    }
    vsym::reached();
}

/// History: a receiver whose buffer (96 B) is larger than what its current dimensions describe
/// (either built that way with `from_data`-like fields, SLACK, or left so by a previous read of a
/// smaller object, TWO_STEP) must still accept every object that fits the *buffer*.
pub fn vec_znx_reuse<const TWO_STEP: bool>() {
    let small = Buf::<2>::sym(); // n=2, cols=1, size=1
    let large = Buf::<8>::sym(); // n=2, cols=2, size=2  (64 B)
    let mut s_bytes = [0u8; 40 + 16];
    let mut l_bytes = [0u8; 40 + 64];
    {
        let mut w: &mut [u8] = &mut s_bytes[..];
        let r = small.vec(2, 1, 1, 1).write_to(&mut w);
        assert!(r.is_ok());
        core::mem::forget(r);
        let mut w: &mut [u8] = &mut l_bytes[..];
        let r = large.vec(2, 2, 2, 2).write_to(&mut w);
        assert!(r.is_ok());
        core::mem::forget(r);
    }
    let mut dst = Buf::<12>::sym(); // 96-byte buffer
    let mut d: VecZnx<&mut [u8]> = if TWO_STEP {
        VecZnx { data: dst.bytes_mut(), n: 2, cols: 2, size: 3, max_size: 3 }
    } else {
        // dimensions describe only 16 of the 96 bytes
        VecZnx { data: dst.bytes_mut(), n: 2, cols: 1, size: 1, max_size: 1 }
    };
    if TWO_STEP {
        let mut rd: &[u8] = &s_bytes[..];
        let r = d.read_from(&mut rd);
        assert!(r.is_ok(), "first read (small object into a large receiver) failed");
        core::mem::forget(r);
        assert!(d.n == 2 && d.cols == 1 && d.size == 1);
    }
    let mut rd: &[u8] = &l_bytes[..];
    let r = d.read_from(&mut rd);
    assert!(r.is_ok(), "an object that fits the receiver's buffer was rejected");
    core::mem::forget(r);
    assert!(d.n == 2 && d.cols == 2 && d.size == 2 && d.size <= d.max_size);
    assert!(d.n * d.cols * d.max_size * 8 <= 96);
    let lv = large.vec(2, 2, 2, 2);
    let mut c = 0;
    while c < 2 {
        let mut j = 0;
        while j < 2 {
            assert!(d.at(c, j)[0] == lv.at(c, j)[0] && d.at(c, j)[1] == lv.at(c, j)[1], "content differs after the read");
            j += 1;
        }
        c += 1;
    }
    vsym::reached();
}

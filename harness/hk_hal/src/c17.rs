//! C17: memory safety of safe API calls.  Kani checks every dereference, slice construction,
//! `ptr.add` and alignment it executes, so every harness of every property is also a C17
//! obligation inside its bounds.  This module adds the *histories* the property names: objects
//! whose active size was changed within capacity, re-allocated limbs, views carved out of
//! scratch, then used through the unchecked raw-pointer accessors.  Before the accessors are
//! called the metadata invariant they rely on (n*cols*size*8 <= data.len()) is asserted
//! explicitly, so that a violation is an ordinary, natively reproducible assertion failure
//! and not only an out-of-bounds read that a native run may not notice.
use crate::vz::*;
use poulpy_cpu_ref::FFT64Ref;
use poulpy_hal::api::{ScratchFromBytes, ScratchTakeBasic};
use poulpy_hal::layouts::{MatZnx, ScalarZnx, Scratch, VecZnx, VecZnxBig, VecZnxDft, ZnxInfos, ZnxView, ZnxViewMut};
use std::marker::PhantomData;

fn invariant(v: &VecZnx<Vec<u8>>) {
    let need = (v.n() as u128) * (v.cols() as u128) * (v.size() as u128) * 8;
    assert!(need <= v.data.len() as u128, "metadata invariant broken: n*cols*size*8 exceeds the buffer");
    let cap = (v.n() as u128) * (v.cols() as u128) * (v.max_size() as u128) * 8;
    assert!(cap <= v.data.len() as u128, "capacity invariant broken: n*cols*max_size*8 exceeds the buffer");
    assert!(v.size() <= v.max_size());
}

fn touch(v: &mut VecZnx<Vec<u8>>) {
    if v.size() == 0 {
        return;
    }
    let i = vsym::usize();
    let j = vsym::usize();
    vsym::assume(i < v.cols() && j < v.size());
    let x = v.at(i, j)[v.n() - 1];
    v.at_mut(i, j)[0] = x.wrapping_add(1);
    let _ = v.raw().len();
}

/// history: alloc(2, 2, S0) -> [reallocate_limbs(R1)] -> set_size(symbolic <= max_size())
///          -> [reallocate_limbs(R2)] -> set_size(symbolic <= max_size()) -> accessors.
/// R1/R2 = 99 means "skip this step".
pub fn vec_znx_resize_history<const S0: usize, const R1: usize, const R2: usize>() {
    let mut v: VecZnx<Vec<u8>> = VecZnx::alloc(2, 2, S0);
    invariant(&v);
    if R1 != 99 {
        v.reallocate_limbs(R1);
        invariant(&v);
    }
    let s1 = vsym::usize();
    vsym::assume(s1 <= v.max_size());
    v.set_size(s1);
    invariant(&v);
    touch(&mut v);
    if R2 != 99 {
        v.reallocate_limbs(R2);
        invariant(&v);
    }
    let s2 = vsym::usize();
    vsym::assume(s2 <= v.max_size());
    v.set_size(s2);
    invariant(&v);
    touch(&mut v);
    vsym::reached();
}

/// accessors of every layout with symbolic in-range (column, limb): the slice lies inside `data`.
pub fn accessors<const N: usize, const COLS: usize, const SIZE: usize, const L: usize>() {
    let mut b = Buf::<L>::sym();
    let i = vsym::usize();
    let j = vsym::usize();
    vsym::assume(i < COLS && j < SIZE);
    {
        let v = b.vec(N, COLS, SIZE, SIZE);
        let s = v.at(i, j);
        assert!(s.len() == N);
        let _ = s[N - 1];
        assert!(v.raw().len() == N * COLS * SIZE);
    }
    {
        let mut v = b.vec_mut(N, COLS, SIZE, SIZE);
        v.at_mut(i, j)[N - 1] = 7;
    }
    {
        let v: VecZnxBig<&[u8], FFT64Ref> = VecZnxBig { data: b.bytes(), n: N, cols: COLS, size: SIZE, max_size: SIZE, _phantom: PhantomData };
        let _ = v.at(i, j)[N - 1];
    }
    {
        let v: VecZnxDft<&[u8], FFT64Ref> = VecZnxDft { data: b.bytes(), n: N, cols: COLS, size: SIZE, max_size: SIZE, _phantom: PhantomData };
        let _ = v.at(i, j)[N - 1];
    }
    {
        // ScalarZnx: COLS*SIZE columns of one limb
        let v: ScalarZnx<&[u8]> = ScalarZnx { data: b.bytes(), n: N, cols: COLS * SIZE };
        let _ = v.at(i * SIZE + j, 0)[N - 1];
    }
    {
        // MatZnx: rows = SIZE, cols_in = COLS, cols_out = 1, size = 1
        let m: MatZnx<&[u8]> = MatZnx::from_data(b.bytes(), N, SIZE, COLS, 1, 1);
        let cell = m.at(j, i);
        assert!(cell.data.len() == N * 8);
        let _ = cell.at(0, 0)[N - 1];
    }
    vsym::reached();
}

/// views carved out of a scratch window, then used through the accessors
pub fn scratch_views<const START: usize, const LB: usize>() {
    let mut arena = Buf::<LB>::sym();
    let base = arena.bytes_mut();
    let total = base.len();
    let win = &mut base[START..];
    let w0 = win.as_ptr() as usize;
    let wl = total - START;
    let scratch: &mut Scratch<FFT64Ref> = Scratch::<FFT64Ref>::from_bytes(win);
    let (mut v1, rest) = scratch.take_vec_znx(2, 2, 3);
    let (mut v2, _rest) = rest.take_vec_znx(4, 1, 2);
    let p1 = v1.data.as_ptr() as usize;
    let p2 = v2.data.as_ptr() as usize;
    assert!(p1 >= w0 && p1 + v1.data.len() <= w0 + wl && p2 >= w0 && p2 + v2.data.len() <= w0 + wl, "scratch view leaves the window");
    assert!(p1 + v1.data.len() <= p2, "scratch views overlap");
    assert!(v1.data.len() == 2 * 2 * 3 * 8 && v2.data.len() == 4 * 2 * 8);
    let i = vsym::usize();
    let j = vsym::usize();
    vsym::assume(i < 2 && j < 3);
    v1.at_mut(i, j)[1] = 1;
    v2.at_mut(0, 1)[3] = 2;
    v1.set_size(2);
    let _ = v1.at(1, 1)[0];
    vsym::reached();
}

//! Spec validation (DESIGN §4): exhaustive tiny-scope native comparison of the harness
//! oracles with the current code, to triage oracle-vs-code disagreements BEFORE the solver
//! runs.  Not a deciding step; prints the disagreeing shape classes.
use hk_hal::spec::*;
use poulpy_cpu_ref::reference::vec_znx::*;
use poulpy_cpu_ref::FFT64Ref as ZnxRef;
use poulpy_hal::layouts::VecZnx;
use std::collections::BTreeMap;

fn mk(limbs: &[i64]) -> VecZnx<Vec<u8>> {
    let mut v = VecZnx::alloc(1, 1, limbs.len());
    for (j, &l) in limbs.iter().enumerate() {
        use poulpy_hal::layouts::ZnxViewMut;
        v.at_mut(0, j)[0] = l;
    }
    v
}
fn get(v: &VecZnx<Vec<u8>>) -> Vec<i64> {
    use poulpy_hal::layouts::{ZnxInfos, ZnxView};
    (0..v.size()).map(|j| v.at(0, j)[0]).collect()
}

fn digits(d: i64, n: usize, f: &mut dyn FnMut(&[i64])) {
    let mut cur = vec![-d; n];
    loop {
        f(&cur);
        let mut i = 0;
        loop {
            if i == n {
                return;
            }
            cur[i] += 1;
            if cur[i] > d {
                cur[i] = -d;
                i += 1;
            } else {
                break;
            }
        }
    }
}

fn main() {
    let which = std::env::args().nth(1).unwrap_or("all".into());
    let d: i64 = std::env::args().nth(2).map(|s| s.parse().unwrap()).unwrap_or(9);
    let mut bad: BTreeMap<String, (usize, String)> = BTreeMap::new();
    let mut total = 0usize;
    if which == "all" || which == "normalize" {
        for rb in 1..=3usize {
            for ab in 1..=3usize {
                for a_s in 1..=3usize {
                    for r_s in 1..=3usize {
                        let lim = (a_s * ab + 2 * ab.max(rb) + r_s * rb) as i64;
                        for off in -lim..=lim {
                            digits(d, a_s, &mut |a| {
                                let av = mk(a);
                                let mut rv = mk(&vec![77; r_s]);
                                let mut carry = vec![0i64; 3];
                                let r = std::panic::catch_unwind(std::panic::AssertUnwindSafe(|| {
                                    vec_znx_normalize::<_, _, ZnxRef>(&mut rv, rb, off, 0, &av, ab, 0, &mut carry);
                                }));
                                total += 1;
                                let key = format!("normalize rb={rb} ab={ab} as={a_s} rs={r_s} off={off}");
                                if r.is_err() {
                                    bad.entry(key).or_insert((0, format!("PANIC a={a:?}"))).0 += 1;
                                    return;
                                }
                                let r = get(&rv);
                                let ok = torus_rel_any_rep(horner_w256(&r, rb), r_s * rb, horner_w256(a, ab), a_s * ab, off)
                                    && (rb != ab || r.iter().all(|&x| in_digit_range(rb, x)));
                                if !ok {
                                    bad.entry(key).or_insert((0, format!("a={a:?} res={r:?}"))).0 += 1;
                                }
                            });
                        }
                    }
                }
            }
        }
    }
    if which == "all" || which == "shift" {
        for b in 1..=3usize {
            for a_s in 1..=3usize {
                for r_s in 1..=3usize {
                    let lim = a_s * b + 2 * b + r_s * b;
                    for k in 0..=lim {
                        for mode in 0..6usize {
                            digits(d.min(5), a_s, &mut |a| {
                                let av = mk(a);
                                let prev: Vec<i64> = (0..r_s).map(|j| 3 - 2 * j as i64).collect();
                                let mut rv = mk(&prev);
                                let mut carry = vec![0i64; 2];
                                let r = std::panic::catch_unwind(std::panic::AssertUnwindSafe(|| match mode {
                                    0 => vec_znx_lsh::<_, _, ZnxRef, true>(b, k, &mut rv, 0, &av, 0, &mut carry),
                                    1 => vec_znx_lsh::<_, _, ZnxRef, false>(b, k, &mut rv, 0, &av, 0, &mut carry),
                                    2 => vec_znx_lsh_sub::<_, _, ZnxRef>(b, k, &mut rv, 0, &av, 0, &mut carry),
                                    3 => vec_znx_rsh::<_, _, ZnxRef, true>(b, k, &mut rv, 0, &av, 0, &mut carry),
                                    4 => vec_znx_rsh::<_, _, ZnxRef, false>(b, k, &mut rv, 0, &av, 0, &mut carry),
                                    _ => vec_znx_rsh_sub::<_, _, ZnxRef>(b, k, &mut rv, 0, &av, 0, &mut carry),
                                }));
                                total += 1;
                                let key = format!("shift mode={mode} b={b} as={a_s} rs={r_s} k={k}");
                                if r.is_err() {
                                    bad.entry(key).or_insert((0, format!("PANIC a={a:?}"))).0 += 1;
                                    return;
                                }
                                let r = get(&rv);
                                let rvv = horner_w256(&r, b);
                                let bv = horner_w256(&prev, b);
                                let delta = match mode {
                                    0 | 3 => rvv,
                                    1 | 4 => rvv.sub(bv),
                                    _ => bv.sub(rvv),
                                };
                                let off = if mode < 3 { k as i64 } else { -(k as i64) };
                                let mut ok = torus_rel_any_rep(delta, r_s * b, horner_w256(a, b), a_s * b, off);
                                if mode == 0 || mode == 3 {
                                    ok &= r.iter().all(|&x| in_digit_range(b, x));
                                }
                                if !ok {
                                    bad.entry(key).or_insert((0, format!("a={a:?} prev={prev:?} res={r:?}"))).0 += 1;
                                }
                            });
                        }
                    }
                }
            }
        }
    }
    if which == "all" || which == "assign" {
        for b in 1..=3usize {
            for r_s in 1..=3usize {
                for k in 0..=(r_s * b + 2 * b) {
                    for mode in 0..3usize {
                        digits(d, r_s, &mut |a| {
                            let mut rv = mk(a);
                            let mut tmp = vec![0i64; 2];
                            let r = std::panic::catch_unwind(std::panic::AssertUnwindSafe(|| match mode {
                                0 => vec_znx_lsh_assign::<_, ZnxRef>(b, k, &mut rv, 0, &mut tmp),
                                1 => vec_znx_rsh_assign::<_, ZnxRef>(b, k, &mut rv, 0, &mut tmp),
                                _ => vec_znx_normalize_assign::<_, ZnxRef>(b, &mut rv, 0, &mut tmp),
                            }));
                            total += 1;
                            let key = format!("assign mode={mode} b={b} rs={r_s} k={k}");
                            if r.is_err() {
                                bad.entry(key).or_insert((0, format!("PANIC a={a:?}"))).0 += 1;
                                return;
                            }
                            let r = get(&rv);
                            let off = match mode {
                                0 => k as i64,
                                1 => -(k as i64),
                                _ => 0,
                            };
                            let ok = torus_rel_any_rep(horner_w256(&r, b), r_s * b, horner_w256(a, b), r_s * b, off) && r.iter().all(|&x| in_digit_range(b, x));
                            if !ok {
                                bad.entry(key).or_insert((0, format!("a={a:?} res={r:?}"))).0 += 1;
                            }
                        });
                    }
                }
            }
        }
    }
    println!("cases={total} disagreeing_shapes={}", bad.len());
    for (k, (n, ex)) in bad.iter() {
        println!("{k}: {n} cases, e.g. {ex}");
    }
}

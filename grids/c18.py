from common import *

PROPERTY = "C18"
QUICK_SAMPLE = 10
H = "poulpy-hal/src/layouts"
STUBS = [("std::fmt::format", "crate::c18::fmt_stub")]


def instances(tier, seed):
    out = []
    vec_lens = [0, 1, 7, 8, 9, 16, 24, 31, 32, 39, 40, 41, 47, 48, 55, 56, 57, 64, 71, 72, 80]
    core_vec = {0, 8, 39, 40, 56, 72, 80}
    for sl in vec_lens:
        out.append(Instance(
            crate="hk_hal", family="ser.vec_znx.read", name=f"c18_vec_znx_read_len{sl}",
            call=f"crate::c18::vec_znx_read::<{sl}>()", unwind=max(sl, 8) + 4, params={"type": "VecZnx", "stream_len": sl, "receiver": "n=2,cols=1,size=1,max_size=2"},
            symbolic=["every stream byte (all header words, all payload)", "prior receiver content"], stubs=STUBS,
            functions=[f"{H}/vec_znx.rs::<VecZnx as ReaderFrom>::read_from", f"{H}/znx_base.rs::ZnxView::at/raw"], timeout=900, core=sl in core_vec))
    for sl in [0, 7, 8, 16, 23, 24, 25, 32, 39, 40, 48]:
        out.append(Instance(
            crate="hk_hal", family="ser.scalar_znx.read", name=f"c18_scalar_znx_read_len{sl}",
            call=f"crate::c18::scalar_znx_read::<{sl}>()", unwind=max(sl, 8) + 4, params={"type": "ScalarZnx", "stream_len": sl, "receiver": "n=2,cols=1"},
            symbolic=["every stream byte", "prior receiver content"], stubs=STUBS,
            functions=[f"{H}/scalar_znx.rs::<ScalarZnx as ReaderFrom>::read_from"], timeout=900, core=sl in (23, 24, 40)))
    for sl in [0, 8, 40, 47, 48, 49, 56, 63, 64, 72]:
        out.append(Instance(
            crate="hk_hal", family="ser.mat_znx.read", name=f"c18_mat_znx_read_len{sl}",
            call=f"crate::c18::mat_znx_read::<{sl}>()", unwind=max(sl, 8) + 4, params={"type": "MatZnx", "stream_len": sl, "receiver": "n=2,rows=1,cols_in=1,cols_out=1,size=1"},
            symbolic=["every stream byte", "prior receiver content"], stubs=STUBS,
            functions=[f"{H}/mat_znx.rs::<MatZnx as ReaderFrom>::read_from"], timeout=900, core=sl in (47, 48, 64)))
    for big in (False, True):
        out.append(Instance(
            crate="hk_hal", family="ser.vec_znx.roundtrip", name=f"c18_vec_znx_roundtrip_{'big' if big else 'eq'}",
            call=f"crate::c18::vec_znx_roundtrip::<{bool_rs(big)}>()", unwind=100, params={"type": "VecZnx", "receiver": "larger" if big else "equal capacity"},
            symbolic=["object content", "prior receiver content"], stubs=STUBS,
            functions=[f"{H}/vec_znx.rs::write_to/read_from"], timeout=900, core=True))
    CS = [("std::fmt::format", "crate::stubs::fmt_stub")]
    for which, tname, hdr in ((0, "GLWE", 4), (1, "LWE", 4), (2, "GLWECompressed", 40)):
        for sl in sorted({0, 3, 4, 5, hdr, hdr + 8, hdr + 39, hdr + 40, hdr + 41, hdr + 40 + 32, hdr + 40 + 64}):
            out.append(Instance(
                crate="hk_core", family=f"ser.core.{tname}.read", name=f"c18_core_{tname}_len{sl}", call=f"crate::c18_core::wrapper_read::<{which}, {sl}>()", unwind=max(sl, 40) + 8,
                params={"type": tname, "stream_len": sl}, symbolic=["every stream byte"], stubs=CS,
                functions=[f"poulpy-core/src/layouts/{'compressed/glwe' if which == 2 else tname.lower()}.rs::<{tname} as ReaderFrom>::read_from"], timeout=1200, mem_gb=16,
                core=sl in (4, hdr + 8, hdr + 40)))
    for which, tname, fname in ((3, "GGSWCompressed", "ggsw"), (4, "GGLWECompressed", "gglwe")):
        for sl in (0, 3, 4, 8, 12, 16, 19):
            out.append(Instance(
                crate="hk_core", family=f"ser.core.{tname}.read", name=f"c18_core_{tname}_len{sl}", call=f"crate::c18_core::wrapper_read::<{which}, {sl}>()", unwind=48,
                params={"type": tname, "stream_len": sl}, symbolic=["every stream byte"], stubs=CS,
                functions=[f"poulpy-core/src/layouts/compressed/{fname}.rs::<{tname} as ReaderFrom>::read_from"], timeout=1200, mem_gb=16,
                core=sl in (4, 16)))
    for sl in (0, 4, 8, 39, 40, 48):
        out.append(Instance(
            crate="hk_core", family="ser.core.LWECompressed.read", name=f"c18_core_LWECompressed_len{sl}", call=f"crate::c18_core::wrapper_read::<5, {sl}>()", unwind=56,
            params={"type": "LWECompressed", "stream_len": sl}, symbolic=["every stream byte"], stubs=CS,
            functions=["poulpy-core/src/layouts/compressed/lwe.rs::<LWECompressed as ReaderFrom>::read_from"], timeout=1200, mem_gb=16,
            core=sl in (8, 40)))
    BS = [("std::fmt::format", "crate::c18_brk::fmt_stub")]
    for nk, lens in ((1, (0, 7, 8, 15, 16, 24, 100, 199, 200)), (2, (16, 200, 384))):
        for sl in lens:
            out.append(Instance(
                crate="hk_binfhe", family="ser.binfhe.BlindRotationKey.read", name=f"c18_brk_k{nk}_len{sl}", call=f"crate::c18_brk::brk_read::<{nk}, {sl}>()", unwind=max(sl, 40) + 8,
                params={"type": "BlindRotationKey<CGGI>", "elements": nk, "stream_len": sl}, symbolic=["every stream byte"], stubs=BS,
                functions=["poulpy-bin-fhe/src/blind_rotation/layouts/key.rs::<BlindRotationKey as ReaderFrom>::read_from", "poulpy-core/src/layouts/ggsw.rs::read_from", "poulpy-core/src/dist.rs::Distribution::read_from"], timeout=1800, mem_gb=24,
                core=(nk, sl) in ((1, 16), (2, 200))))
    for nk, lens in ((1, (0, 8, 15, 16, 24)), (2, (16,))):
        for sl in lens:
            out.append(Instance(
                crate="hk_binfhe", family="ser.binfhe.BlindRotationKeyCompressed.read", name=f"c18_brkc_k{nk}_len{sl}", call=f"crate::c18_brk::brkc_read::<{nk}, {sl}>()", unwind=max(sl, 40) + 8,
                params={"type": "BlindRotationKeyCompressed<CGGI>", "elements": nk, "stream_len": sl}, symbolic=["every stream byte"], stubs=BS,
                functions=["poulpy-bin-fhe/src/blind_rotation/layouts/key_compressed.rs::<BlindRotationKeyCompressed as ReaderFrom>::read_from", "poulpy-core/src/layouts/compressed/ggsw.rs::read_from", "poulpy-core/src/dist.rs::Distribution::read_from"], timeout=1800, mem_gb=24,
                core=(nk, sl) in ((1, 16), (1, 24))))
    for two in (False, True):
        out.append(Instance(
            crate="hk_hal", family="ser.vec_znx.reuse", name=f"c18_vec_znx_reuse_{'two_reads' if two else 'slack'}",
            call=f"crate::c18::vec_znx_reuse::<{bool_rs(two)}>()", unwind=120, params={"type": "VecZnx", "history": "small then large read" if two else "receiver buffer larger than its dimensions"},
            symbolic=["object contents", "prior receiver content"], stubs=STUBS,
            functions=[f"{H}/vec_znx.rs::write_to/read_from"], timeout=900, core=True))
    return out


META = {
    "bounds": "receivers: VecZnx n=2,cols=1,size 1 of max 2 (32 B); ScalarZnx n=2,cols=1; MatZnx n=2,1x1x1,size 1; stream length enumerated (every field boundary +-1, payload boundaries), every stream byte symbolic",
    "outside": "the Ok path of BlindRotationKeyCompressed::read_from (streams long enough for a whole element), streams that reach the seed vector of GGSWCompressed/GGLWECompressed (>= 20 bytes: the allocation is sized by an untrusted 32-bit count, observed by reading, not encoded), poulpy-core wrappers other than GLWE/LWE/GLWECompressed/GGSWCompressed/GGLWECompressed/LWECompressed, poulpy-bin-fhe readers other than BlindRotationKey and BlindRotationKeyCompressed (1-2 elements, n_glwe=2, rank 1, one row), larger receivers",
    "assumptions": ["std::fmt::format replaced by an empty-string stub (error messages only)", "io::Result values are mem::forget-ed in the harness"],
    "stubs": ["std::fmt::format -> crate::c18::fmt_stub"],
}

"""C07 (structural layer only): the DFT-domain shape functions with substituted exact integer kernels."""
import importlib
from common import *

PROPERTY = "C07"
QUICK_SAMPLE = 20


def instances(tier, seed):
    c11 = importlib.import_module("c11")
    out = []
    for i in c11.dft_instances() + c11.svp_instances() + [x for x in c11.vmp_instances() if x.family == "dft.vmp_apply_dft_to_dft"]:
        i.name = i.name.replace("c11_", "c07_", 1)
        out.append(i)
    return out


META = {
    "bounds": "vmp: n=8, rows/size/limbs 1..3, cols_in=cols_out=1, concrete matrix; others: n=2, 3 columns (4 concrete column assignments), limb counts 1..3, step 1..3, offset 0..3; prepared scalar = concrete Gaussian integers",
    "outside": "IEEE-754 exactness of fft_ref/ifft_ref/reim4 (symbolic floating-point products), NTT120 kernels and transforms, bivariate convolution (not built), magnitude-domain statements",
    "assumptions": ["leaf kernels replaced by exact integer kernels on the f64 bit patterns, FFT = identity (harness type Probe): only the repository's limb/size/selection/zero-fill logic around the products is decided"],
    "stubs": ["ReimArith / ReimFFTExecute implemented by harness type Probe"],
}

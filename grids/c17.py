"""C17: memory safety.  Dedicated history/accessor harnesses + the AVX kernels on exact allocations;
every other property's harnesses are C17 obligations too (Kani's pointer checks run in all of them)."""
import importlib
from common import *

PROPERTY = "C17"
QUICK_SAMPLE = 12
X = "core::arch::x86_64::"


def instances(tier, seed):
    out = []
    H = "poulpy-hal/src/layouts"
    for s0 in (3, 1):
        for r1 in (99, 1, 2, 5):
            for r2 in (99, 2, 4):
                out.append(Instance(crate="hk_hal", family="mem.vec_znx_resize_history", name=f"c17_resize_s{s0}_r{r1}_r{r2}",
                                    call=f"crate::c17::vec_znx_resize_history::<{s0}, {r1}, {r2}>()", unwind=130,
                                    params={"alloc_size": s0, "realloc1": None if r1 == 99 else r1, "realloc2": None if r2 == 99 else r2},
                                    symbolic=["both set_size arguments (<= max_size())", "accessor column/limb indices"],
                                    functions=[f"{H}/vec_znx.rs::alloc/reallocate_limbs/set_size", f"{H}/znx_base.rs::ZnxView::at/raw, ZnxViewMut::at_mut", "poulpy-hal/src/lib.rs::alloc_aligned"],
                                    timeout=1200, mem_gb=16, core=((s0, r1, r2) in ((3, 1, 99), (3, 99, 99), (3, 5, 2)))))
    for n, cols, size in ((1, 1, 1), (2, 3, 2), (4, 2, 3), (8, 1, 2)):
        out.append(Instance(crate="hk_hal", family="mem.accessors", name=f"c17_accessors_n{n}_c{cols}_s{size}",
                            call=f"crate::c17::accessors::<{n}, {cols}, {size}, {n*cols*size}>()", unwind=n * cols * size + 6, params={"n": n, "cols": cols, "size": size},
                            symbolic=["column and limb index (in range)", "buffer contents"], functions=[f"{H}/znx_base.rs::at_ptr/at/at_mut/raw", f"{H}/mat_znx.rs::MatZnx::at"], timeout=600,
                            core=((n, cols, size) in ((2, 3, 2), (1, 1, 1)))))
    for start in (0, 8, 40):
        lb = (start + 64 * 4) // 8
        out.append(Instance(crate="hk_hal", family="mem.scratch_views", name=f"c17_scratch_views_s{start}", call=f"crate::c17::scratch_views::<{start}, {lb}>()", unwind=12,
                            params={"window_start_mod64": start}, symbolic=["arena contents", "accessor indices"],
                            functions=["poulpy-hal/src/api/scratch.rs::take_vec_znx", "poulpy-cpu-ref/src/hal_defaults/scratch.rs::take_slice_aligned"], timeout=600, core=(start in (0, 8))))
    # AVX kernels on exact allocations (pointer computations checked by Kani)
    c10 = importlib.import_module("c10")
    for inst in c10.instances(tier, seed):
        if inst.family.startswith("avx.") and not inst.family.startswith("avx.conv") and not inst.family.startswith("avx.blk"):
            keep = inst.core and (inst.family in ("avx.add", "avx.sub_negate_assign", "avx.negate", "avx.automorphism", "avx.switch_ring") or "middle_step_ow" in inst.family or "normalize_digit" in inst.family)
            inst.core = keep
            inst.name = "c17s_" + inst.name
            out.append(inst)
    c12 = importlib.import_module("c12")
    for inst in c12.instances(tier, seed):
        if inst.family in ("scratch.take_slice", "scratch.take_slice_refuse"):
            inst.name = "c17s_" + inst.name
            out.append(inst)
    C = "poulpy-cpu-avx/src/fft64/convolution.rs"
    for a_s, bs, k in ((1, 1, 0), (2, 2, 1), (3, 2, 3), (2, 3, 0)):
        out.append(Instance(crate="hk_avx", family="mem.avx_conv_exact", name=f"c17_conv_exact_as{a_s}_bs{bs}_k{k}", call=f"crate::c10::conv_by_const_exact::<{a_s}, {bs}, {8*a_s}>({k})",
                            unwind=8 * a_s + 12, params={"a_size": a_s, "b_size": bs, "k": k}, symbolic=["small lane values"], stubs=c10.STUBS,
                            functions=[f"{C}::i64_convolution_by_const_1coeff_avx"], timeout=600, core=((a_s, bs, k) == (2, 2, 1))))
    for nn, rows, blk, save in ((8, 2, 0, False), (16, 2, 1, True), (16, 1, 0, False)):
        ls, ld = (rows * 8, rows * nn) if save else (rows * nn, rows * 8)
        out.append(Instance(crate="hk_avx", family="mem.avx_blk_exact", name=f"c17_blk_exact_{'save' if save else 'extract'}_n{nn}_r{rows}_b{blk}",
                            call=f"crate::c10::blk_movers_exact::<{nn}, {rows}, {ls}, {ld}, {bool_rs(save)}>({blk})", unwind=rows * nn + 10,
                            params={"n": nn, "rows": rows, "blk": blk, "save": save}, symbolic=["all words"], stubs=c10.STUBS,
                            functions=[f"{C}::i64_{'save' if save else 'extract'}_1blk_contiguous_avx"], timeout=600, core=(nn == 16 and save)))
    return out


META = {
    "bounds": "VecZnx histories alloc(2,2,{1,3}) -> reallocate_limbs({1,2,5}|skip) -> set_size(sym) -> reallocate_limbs({2,4}|skip) -> set_size(sym) -> accessors; accessor objects n<=8, cols<=3, size<=3; scratch windows at 3 alignments; AVX kernels at lengths 1..9 on exact allocations",
    "outside": "uninitialised reads (-Z uninit-checks crashes in this Kani), assembly kernels, the documented Vec layout mismatch in alloc_aligned (dealloc contract, invisible to CBMC's allocator model), shapes outside the grids",
    "assumptions": [],
    "stubs": ["AVX intrinsic lane models as in C10"],
}
THOROUGH_SAMPLE = 60

"""C13: compiled BDD circuits, decided exhaustively (2^64 inputs per bit-circuit) by z3 (+cvc5)."""
import json, sys, time
from pathlib import Path
from common import *

sys.path.insert(0, str(Path(__file__).resolve().parent.parent / "smt"))
import bdd_check

PROPERTY = "C13"


def instances(tier, seed):
    return []


def _solvers(tier):
    s = [("z3-4.8.12", ["/usr/bin/z3", "-in", "-smt2"])]
    if tier == "thorough":
        s.append(("cvc5-1.0", ["cvc5", "--bitblast=eager", "--lang", "smt2", "--produce-models"]))
    return s


def extra(tier, seed, ctx):
    results = []
    t0 = time.time()
    try:
        circuits = bdd_check.dump_circuits(ctx["verif"], ctx["repo"], ctx["work"] / "target-native", ctx["logdir"] / "bdd_dump.log")
    except Exception as e:
        return [Result("bdd_dump", "bdd.dump", {}, "inconclusive", time.time() - t0, detail=str(e), engine="cargo")]
    (ctx["logdir"] / "circuits.json").write_text(json.dumps(circuits))
    names = [c["name"] for c in circuits]
    expected = set(bdd_check.SMT_OPS)
    if set(names) != expected:
        results.append(Result("bdd_circuit_set", "bdd.structure", {"names": names}, "inconclusive", 0, detail=f"circuit set changed: {sorted(set(names) ^ expected)}", engine="python"))
    # structural clauses
    for c in circuits:
        t1 = time.time()
        errs = bdd_check.structure_errors(c)
        r = Result(f"bdd_structure_{c['name']}", "bdd.structure", {"circuit": c["name"]}, "fail" if errs else "pass", round(time.time() - t1, 3), checks=len(c["bits"]), detail="; ".join(errs[:5]), engine="python-structural", symbolic=["(structural: every node of every level)"], functions=[f"poulpy-bin-fhe/src/bdd_arithmetic/circuits/u32/{c['name']}_codegen.rs::OUTPUT_CIRCUITS"])
        if errs:
            rp = ctx["verif"] / "replays" / PROPERTY
            rp.mkdir(parents=True, exist_ok=True)
            f = rp / f"structure_{c['name']}.json"
            f.write_text(json.dumps({"engine": "structure", "property": PROPERTY, "circuit": c["name"], "errors": errs}, indent=1))
            r.replay = {"file": str(f), "reproduced": True}
        results.append(r)
    # semantic clauses: one query per (circuit, output bit) per solver
    for sname, cmd in _solvers(tier):
        try:
            S = bdd_check.OneShotSolver(cmd) if sname.startswith("cvc5") else bdd_check.Solver(cmd)
        except Exception as e:
            results.append(Result(f"solver_{sname}", "bdd.semantics", {}, "inconclusive", 0, detail=str(e), engine=sname))
            continue
        for c in circuits:
            if c["name"] not in bdd_check.SMT_OPS:
                continue
            for bi, bc in enumerate(c["bits"]):
                t1 = time.time()
                nm = f"bdd_{c['name']}_bit{bi}_{sname.split('-')[0]}"
                par = {"circuit": c["name"], "bit": bi, "levels": len(bc["nodes"]) // max(bc["state"], 1), "state": bc["state"], "solver": sname}
                fam = f"bdd.semantics.{c['name']}"
                fn = [f"poulpy-bin-fhe/src/bdd_arithmetic/circuits/u32/{c['name']}_codegen.rs::OUTPUT_CIRCUITS[{bi}]"]
                sym = ["a: all 2^32", "b: all 2^32"]
                if bc["state"] == 0 or len(bc["nodes"]) % bc["state"] != 0:
                    results.append(Result(nm, fam, par, "inconclusive", 0, detail="malformed table (see structure result)", engine=sname, symbolic=sym, functions=fn))
                    continue
                try:
                    verdict, model, out = S.query(bdd_check.smt_for_bit(c["name"], bi, bc))
                except Exception as e:
                    results.append(Result(nm, fam, par, "inconclusive", time.time() - t1, detail=f"solver failure: {e}", engine=sname, symbolic=sym, functions=fn))
                    S = bdd_check.OneShotSolver(cmd) if sname.startswith("cvc5") else bdd_check.Solver(cmd)
                    continue
                secs = round(time.time() - t1, 3)
                if verdict == "unsat":
                    results.append(Result(nm, fam, par, "pass", secs, checks=1, cover_ok=True, engine=sname, symbolic=sym, functions=fn))
                elif verdict == "sat" and model:
                    a, b = model
                    inputs = a | (b << 32)
                    got = bdd_check.eval_py(bc, inputs)
                    want = (bdd_check.PY_OPS[c["name"]](a, b) >> bi) & 1
                    r = Result(nm, fam, par, "fail", secs, checks=1, cover_ok=True, engine=sname, symbolic=sym, functions=fn, detail=f"{c['name']}({a:#x},{b:#x}) bit {bi}: table gives {got}, word op gives {want}")
                    rp = ctx["verif"] / "replays" / PROPERTY
                    rp.mkdir(parents=True, exist_ok=True)
                    f = rp / f"{c['name']}_bit{bi}.json"
                    f.write_text(json.dumps({"engine": "bdd", "property": PROPERTY, "circuit": c["name"], "bit": bi, "a": a, "b": b, "table_output": got, "expected": want}, indent=1))
                    # replay = concrete evaluation of the dumped table of the real build
                    r.replay = {"file": str(f), "reproduced": got != want}
                    results.append(r)
                else:
                    results.append(Result(nm, fam, par, "inconclusive", secs, detail=f"solver said {verdict}: {' '.join(out)[:200]}", engine=sname, symbolic=sym, functions=fn))
        S.close()
    return results


def replay(data):
    """bin/check C13 --replay <file>: re-dump the tables from the current tree and re-evaluate."""
    from driver import VERIF, REPO, WORK
    circuits = bdd_check.dump_circuits(VERIF, REPO, WORK / "target-native", WORK / "bdd_dump_replay.log")
    c = [x for x in circuits if x["name"] == data["circuit"]][0]
    if data["engine"] == "structure":
        errs = bdd_check.structure_errors(c)
        print("structure errors:", errs[:5])
        if errs:
            print(f"VIOLATION property=C13 replay={data.get('file','')}")
            return 1
        return 0
    a, b, bi = data["a"], data["b"], data["bit"]
    got = bdd_check.eval_py(c["bits"][bi], a | (b << 32))
    want = (bdd_check.PY_OPS[c["name"]](a, b) >> bi) & 1
    print(f"{c['name']}({a:#x},{b:#x}) bit {bi}: table {got} expected {want}")
    if got != want:
        print("VIOLATION property=C13 replay=(this file)")
        return 1
    return 0


META = {
    "exhaustive": True,
    "bounds": "none on inputs: each query quantifies over all 2^64 (a,b); the circuit set is the 11 tables compiled into poulpy-bin-fhe",
    "outside": "the homomorphic evaluation of each Cmux (C04/C15), the packing of output bits; evaluator semantics is transcribed from eval.rs::eval_level (validated by the thorough-tier differential run when available)",
    "assumptions": ["evaluator semantics as transcribed in smt/bdd_check.py (two-buffer level evaluation, None keeps the slot, initial state [0,1,0..])", "input numbering a = bits 0..31, b = bits 32..63 (FheUintHelper::get_bit)"],
    "engines": ["z3 4.8.12 (QF_BV, incremental)", "cvc5 1.0 (thorough tier cross-check)"],
    "stubs": [],
}

from common import *

PROPERTY = "C02"
QUICK_SAMPLE = 12
O = "poulpy-core/src/api/operations.rs"
LIN = ["add_into", "sub", "add_assign", "sub_assign", "sub_negate_assign", "negate", "negate_assign", "copy", "rotate", "mul_xp_minus_one"]
SH = ["lsh", "lsh_assign", "rsh", "lsh_add", "lsh_sub", "normalize", "normalize_assign"]
B = 17


def rank_triples(op):
    if op in (0, 1):
        return [(1, 1, 1), (1, 0, 1), (1, 1, 0), (2, 2, 2), (2, 0, 2), (2, 2, 0), (0, 0, 0)]
    if op == 2:
        return [(1, 1, 1), (1, 0, 1), (2, 1, 1), (2, 2, 2)]
    if op in (3, 4):
        return [(1, 1, 1), (1, 0, 1), (2, 2, 2), (2, 0, 2)]
    if op in (5, 6, 9):
        return [(1, 1, 1), (2, 2, 2), (0, 0, 0)]
    return [(1, 1, 1), (1, 0, 1), (2, 2, 2), (2, 0, 2)]


def instances(tier, seed):
    out = []
    for op, oname in enumerate(LIN):
        for rr, ra, rb in rank_triples(op):
            for sr, sa, sb in ((2, 2, 2), (1, 2, 2), (3, 2, 1), (2, 1, 3)):
                ks = [0] if op < 8 else [1, -1, 2, 3, 5]
                for k in ks:
                    core = (sr, sa, sb) == (3, 2, 1) and (rr, ra, rb) in ((1, 0, 1), (1, 1, 1), (2, 0, 2), (2, 2, 0)) and k in (0, 3)
                    core = core or ((sr, sa, sb) == (2, 2, 2) and (rr, ra, rb) == (1, 0, 1) and op in (1, 4))
                    out.append(Instance(crate="hk_core", family=f"glwe.{oname}", name=f"c02_{oname}_r{rr}{ra}{rb}_s{sr}{sa}{sb}_k{sgn(k)}",
                                        call=f"crate::c02::linear::<{B}, {op}>({rr}, {ra}, {rb}, {sr}, {sa}, {sb}, {k})", unwind=30,
                                        params={"op": oname, "ranks(res,a,b)": [rr, ra, rb], "sizes(res,a,b)": [sr, sa, sb], "k": k, "n": 2},
                                        symbolic=["all ciphertext limbs |x|<2^60", "prior result content"], functions=[f"{O}::glwe_{oname}"], timeout=900, mem_gb=16, core=core))
    for op, oname in enumerate(SH):
        for rr, ra in ((1, 1), (1, 0), (2, 2), (0, 0)):
            if op in (1, 2, 5, 6) and ra != rr:
                continue
            if op == 5 and rr == 2:
                continue
            for sr, sa in ((2, 2), (3, 2), (2, 3)):
                if op in (1, 2, 6) and sa != sr:
                    continue
                # calibrated: two-column shapes with 3 limbs exceed the memory cap (CBMC OOM)
                if rr > 0 and (sr, sa) != (2, 2):
                    continue
                if op == 5 and (sr, sa) != (2, 2):
                    continue
                ks = [0] if op >= 5 else [0, 1, B, B + 1, 2 * B + 1]
                for k in ks:
                    rb = 12 if op == 5 else B
                    core = ((rr, ra) in ((1, 1), (1, 0)) and (sr, sa) == (2, 2) and k in (0, B + 1) and op in (0, 3)) or (op == 5 and (rr, ra) == (0, 0)) or (op == 2 and (rr, sr, k) == (0, 2, B + 1)) or (op in (0, 4) and (rr, ra) == (0, 0) and (sr, sa) == (3, 2) and k == B + 1)
                    out.append(Instance(crate="hk_core", family=f"glwe.{oname}", name=f"c02_{oname}_r{rr}{ra}_s{sr}{sa}_k{k}",
                                        call=f"crate::c02::shift::<{B}, {rb}, {op}>({rr}, {ra}, {sr}, {sa}, {k})", unwind=30,
                                        params={"op": oname, "ranks(res,a)": [rr, ra], "sizes(res,a)": [sr, sa], "k": k, "base2k": B, "res_base2k": rb, "n": 2},
                                        symbolic=["all ciphertext limbs |x|<2^60", "prior result content", "scratch contents (exact size)"], stubs=[("poulpy_cpu_ref::hal_defaults::scratch::take_slice_aligned", "crate::stubs::take_slice_aligned_stub")],
                                        functions=[f"{O}::glwe_{oname}"], timeout=1800, mem_gb=28, core=core))
    return out


META = {
    "bounds": "ring degree 2, ranks 0..2 in the admitted combinations, limb counts 1..3 (result shorter/equal/longer), base2k 17 (12 as cross-radix target), rotation amounts {1,-1,2,3,5}, shift amounts {0,1,b,b+1,2b+1}",
    "outside": "GGSW forms (operations/ggsw.rs), N > 2, random straight-line programs (each operation is decided from an arbitrary symbolic pre-state, which is the inductive step)",
    "assumptions": ["|limbs| < 2^60 (the reference add/sub use checked +/-)", "the phase map is linear in the columns, so the phase-level statement for every secret is equivalent to the column-wise statement decided (reduction on paper, DESIGN C02-A2)"],
    "stubs": ["take_slice_aligned (private, poulpy-cpu-ref/src/hal_defaults/scratch.rs) replaced, in the harnesses that run whole operations, by a copy that derives the 64-byte padding from the window offset inside the 64-byte-aligned harness arena instead of from the pointer integer (same function on these arenas; keeps scratch offsets constant for the engine); the real function is decided by the scratch.take_slice* harnesses"],
}
THOROUGH_SAMPLE = 6

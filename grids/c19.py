from common import *

PROPERTY = "C19"
QUICK_SAMPLE = 4
STUBS = [("poulpy_hal::source::Source::new", "crate::c19::source_new_stub"), ("poulpy_hal::source::Source::next_u64n", "crate::c19::next_u64n_count"), ("std::fmt::format", "crate::stubs::fmt_stub")]
G = "poulpy-core/src/layouts/compressed/glwe.rs"


def instances(tier, seed):
    out = []
    for b in (12, 17):
        for size in (1, 2):
            for rank in (1, 2):
                for rs in (size, size + 1, max(size - 1, 1)):
                    refuse = rs != size
                    if refuse and (b != 17):
                        continue
                    out.append(Instance(crate="hk_core", family="compressed.decompress_glwe_refuse" if refuse else "compressed.decompress_glwe",
                                        name=f"c19_decompress_b{b}_s{size}_r{rank}_rs{rs}", call=f"crate::c19::decompress::<{b}, {size}, {rank}, {rs}>()", unwind=40,
                                        params={"base2k": b, "size": size, "rank": rank, "receiver_size": rs, "n": 2},
                                        symbolic=["compressed body", "stored seed (32 bytes)", "mask words", "prior receiver content"], stubs=STUBS, should_panic=refuse,
                                        functions=[f"{G}::GLWEDecompress::decompress_glwe"], timeout=1200, mem_gb=16,
                                        core=(b == 17 and ((size, rank, rs) in ((2, 2, 2), (2, 2, 1), (1, 1, 1))))))
    # de-duplicate names (rs may coincide for size 1)
    seen, res = set(), []
    for i in out:
        if i.name not in seen:
            seen.add(i.name)
            res.append(i)
    return res


META = {
    "bounds": "GLWECompressed with n=2, base2k in {12,17}, 1-2 limbs, rank 1-2; receivers of equal layout (accepted) and of a different limb count (must be refused)",
    "outside": "equality with standard encryption (compressed encryption runs DFT products: DESIGN §2.4), GGLWE/GGSW/key decompressors (they call decompress_glwe cell by cell; their own seed bookkeeping is not encoded), the cross-backend clause (reduces to C10)",
    "assumptions": ["Source::new replaced by a recording stub (real ChaCha needs cpuid), Source::next_u64n by a counting stub drawing symbolic words"],
    "stubs": ["poulpy_hal::source::Source::new", "poulpy_hal::source::Source::next_u64n", "std::fmt::format"],
}

from common import *

PROPERTY = "C19"
QUICK_SAMPLE = 4
STUBS = [("poulpy_hal::source::Source::new", "crate::c19::source_new_stub"), ("poulpy_hal::source::Source::next_u64n", "crate::c19::next_u64n_count"), ("std::fmt::format", "crate::stubs::fmt_stub")]
G = "poulpy-core/src/layouts/compressed/glwe.rs"


ENC_STUBS = [("poulpy_hal::source::Source::new", "crate::c19_enc::source_new_model"), ("poulpy_hal::source::Source::branch", "crate::c19_enc::source_branch_model"),
             ("poulpy_hal::source::Source::next_u64n", "crate::c19_enc::next_u64n_model"), ("poulpy_cpu_ref::reference::znx::znx_add_normal_f64_ref", "crate::c19_enc::add_normal_model"),
             ("f64::exp2", "crate::stubs::exp2_stub"), ("f64::log2", "crate::stubs::log2_stub"), ("std::fmt::format", "crate::stubs::fmt_stub"),
             ("poulpy_cpu_ref::hal_defaults::scratch::take_slice_aligned", "crate::stubs::take_slice_aligned_stub")]
PROBE2 = ["hk_core/src/probe_full.rs: Module<Probe> at N=2 (size-1 FFT = identity, exact integer leaf kernels)", "poulpy-cpu-ref/src/hal_defaults/*.rs", "poulpy-cpu-ref/src/reference/fft64/{vec_znx_dft,svp,vec_znx_big}.rs"]


def enc_instances(tier="quick"):
    import c01
    out = []
    for b, k in ((12, 12), (17, 35), (12, 13)):
        size = -(-k // b)
        for rank in (1, 2):
            for variant, nsym in [(v, ns) for v in (0, 2) for ns in (1, 999)]:
                if nsym == 999 and (tier != "thorough" or not (variant == 0 and rank == 1)):
                    continue
                sp, sec = c01.secret_code(2, rank, variant)
                enc, _ = c01.glwe_tmp(2, size)
                ar = (enc + 192 + 7) // 8
                out.append(Instance(crate="hk_core", family="compressed.glwe_encrypt_vs_full", name=f"c19_glwe_enc_b{b}_k{k}_r{rank}_v{variant}_{'all' if nsym == 999 else 'sym1'}",
                                    call=f"crate::c19_enc::glwe_compressed_vs_full::<{b}, {k}, {ar}>({rank}, {sp}, {nsym})", unwind=max(2 * 2 * (rank + 1) * size, 32) + 10,
                                    params={"n": 2, "base2k": b, "k": k, "rank": rank, "secret": sec},
                                    symbolic=["one seed byte", "error values", "prior receiver content", "plaintext digits: 1 word (quick) / all + stream table entries (thorough)"], stubs=ENC_STUBS,
                                    functions=["poulpy-core/src/encryption/compressed/glwe_ct.rs::glwe_compressed_encrypt_sk", "poulpy-core/src/layouts/compressed/glwe.rs::decompress_glwe", "poulpy-core/src/encryption/glwe.rs::glwe_encrypt_sk / glwe_encrypt_sk_internal"] + PROBE2,
                                    timeout=2400 if nsym == 999 else 1800, mem_gb=24, core=(b, k, rank, variant) in ((17, 35, 2, 0), (12, 12, 1, 0)) and nsym == 1))
    # quick tier: shapes calibrated below 10 min under full load; the others only in the thorough tier
    light = {(12, 36, 1, 2, 1, 1), (12, 36, 1, 2, 2, 1), (12, 36, 2, 1, 1, 1), (12, 36, 2, 1, 2, 1), (12, 60, 2, 2, 1, 1)}
    for b, k, dsize, dnum in ((12, 36, 1, 2), (12, 36, 2, 1), (12, 60, 2, 2), (12, 48, 3, 1), (8, 40, 1, 4)):
        size = -(-k // b)
        for ri, ro, nsym in [(a, c, ns) for (a, c) in ((1, 1), (2, 1), (1, 2), (2, 2)) for ns in (1, 999)]:
            if nsym == 999 and (ri, ro) != (2, 1):
                continue
            if tier != "thorough" and ((b, k, dsize, dnum, ri, ro) not in light or nsym == 999):
                continue
            sp, sec = c01.secret_code(2, ro, 0)
            ar = (8 * 2 * size * 4 + 24 * 2 * 2 + 512 + 7) // 8
            out.append(Instance(crate="hk_core", family="compressed.gglwe_encrypt_cells", name=f"c19_gglwe_enc_b{b}_k{k}_ds{dsize}_dn{dnum}_r{ri}{ro}_{'all' if nsym == 999 else 'sym1'}",
                                call=f"crate::c19_enc::gglwe_compressed_cells::<{b}, {k}, {dsize}, {dnum}, {ar}>({ri}, {ro}, {sp}, {nsym})", unwind=max(2 * 2 * (ro + 1) * size, 33, dnum * ri + 1) + 10,
                                params={"n": 2, "base2k": b, "k": k, "dsize": dsize, "dnum": dnum, "rank_in": ri, "rank_out": ro, "secret": sec},
                                symbolic=["plaintext coefficients in [-4,4]: 1 (quick) / all + one seed byte (thorough)"], stubs=ENC_STUBS,
                                functions=["poulpy-core/src/encryption/compressed/gglwe.rs::gglwe_compressed_encrypt_sk", "poulpy-core/src/layouts/compressed/gglwe.rs::decompress_gglwe", "poulpy-core/src/encryption/gglwe.rs::gglwe_encrypt_sk",
                                           "poulpy-core/src/decryption/glwe.rs::glwe_decrypt_default"] + PROBE2,
                                timeout=2400, mem_gb=24, core=(b, k, dsize, dnum, ri, ro) in ((12, 60, 2, 2, 1, 1), (12, 36, 2, 1, 2, 1)) and nsym == 1))
    return out


def instances(tier, seed):
    out = []
    for b in (12, 17):
        for size in (1, 2):
            for rank in (1, 2):
                for rs in (size, size + 1, max(size - 1, 1)):
                    refuse = rs != size
                    if refuse and (b != 17):
                        continue
                    out.append(Instance(crate="hk_core", family="compressed.decompress_glwe_refuse" if refuse else "compressed.decompress_glwe",
                                        name=f"c19_decompress_b{b}_s{size}_r{rank}_rs{rs}", call=f"crate::c19::decompress::<{b}, {size}, {rank}, {rs}>()", unwind=40,
                                        params={"base2k": b, "size": size, "rank": rank, "receiver_size": rs, "n": 2},
                                        symbolic=["compressed body", "stored seed (32 bytes)", "mask words", "prior receiver content"], stubs=STUBS, should_panic=refuse,
                                        functions=[f"{G}::GLWEDecompress::decompress_glwe"], timeout=1200, mem_gb=16,
                                        core=(b == 17 and ((size, rank, rs) in ((2, 2, 2), (2, 2, 1), (1, 1, 1))))))
    out += enc_instances(tier)
    # de-duplicate names (rs may coincide for size 1)
    seen, res = set(), []
    for i in out:
        if i.name not in seen:
            seen.add(i.name)
            res.append(i)
    return res


META = {
    "bounds": "encryption side (Module<Probe>, N=2): decompress(glwe_compressed_encrypt_sk) == glwe_encrypt_sk under the stored seed limb for limb (base2k 12/17, k in {12,13,35}, rank 1-2); every cell of decompress(gglwe_compressed_encrypt_sk) decrypts to the plaintext of the same cell of gglwe_encrypt_sk (noise-free, dsize 1..3, dnum 1..4, ranks in/out 1..2) and the per-cell seeds are pairwise distinct; decompression side: GLWECompressed with n=2, base2k in {12,17}, 1-2 limbs, rank 1-2; receivers of equal layout (accepted) and of a different limb count (must be refused)",
    "outside": "GGSW / switching / automorphism / tensor / LWE-related / blind-rotation key compressors, serialisation of compressed objects (C18 covers GLWECompressed), N > 2, the ChaCha8 generator itself (stream model: same seed -> same words, different seed -> different words, a re-created parent repeats its branch seeds), the cross-backend clause (reduces to C10)",
    "assumptions": ["Source::new replaced by a recording stub (real ChaCha needs cpuid), Source::next_u64n by a counting stub drawing symbolic words"],
    "stubs": ["poulpy_hal::source::Source::new / branch / next_u64n (stream model, hk_core/src/c19_enc.rs)", "znx_add_normal_f64_ref (deterministic error table)", "f64::exp2 / f64::log2", "std::fmt::format", "take_slice_aligned stand-in (see C12)"],
}

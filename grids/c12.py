from common import *

PROPERTY = "C12"
QUICK_SAMPLE = 20
BE = {"fft64": "poulpy_cpu_ref::FFT64Ref", "ntt120": "poulpy_cpu_ref::NTT120Ref"}
OPS = ["normalize", "lsh", "rsh", "lsh_assign", "rsh_assign", "rotate_assign", "automorphism_assign", "mul_xp_minus_one_assign", "normalize_assign", "rsh_add_into", "lsh_sub"]
D = "poulpy-cpu-ref/src/hal_defaults"


def instances(tier, seed):
    out = []
    for start in (0, 8, 24, 40, 63):
        for wlen in (64, 100, 200, 204):
            lb = (start + wlen + 7) // 8 + 1
            out.append(Instance(crate="hk_hal", family="scratch.take_slice", name=f"c12_take_slice_s{start}_w{wlen}",
                                call=f"crate::c12::take_slice::<{start}, {wlen}, {lb}>()", unwind=10, params={"window_start_mod64": start, "window_len": wlen},
                                symbolic=["take length (0..=available)", "arena contents"], functions=[f"{D}/scratch.rs::take_slice_aligned/take_slice_default/scratch_available_default"], timeout=600,
                                core=(start in (0, 24) and wlen in (64, 204))))
    for start in (8, 24, 63):
        for wlen in (64, 204):
            lb = (start + wlen + 7) // 8 + 1
            out.append(Instance(crate="hk_hal", family="scratch.take_slice_refuse", name=f"c12_take_slice_refuse_s{start}_w{wlen}",
                                call=f"crate::c12::take_slice_refuse::<{start}, {wlen}, {lb}>()", unwind=10, params={"window_start_mod64": start, "window_len": wlen},
                                symbolic=["take length in (available, window_len]"], functions=[f"{D}/scratch.rs::take_slice_aligned"], timeout=600, should_panic=True,
                                core=(start == 24 and wlen == 204)))
    for start in (0, 24):
        for wlen in (204, 256):
            for parts, aligned in ((2, True), (3, True), (2, False), (3, False)):
                lb = (start + wlen + 7) // 8 + 1
                out.append(Instance(crate="hk_hal", family="scratch.split_mut", name=f"c12_split_mut_s{start}_w{wlen}_n{parts}{'_al' if aligned else ''}",
                                    call=f"crate::c12::split_mut::<{start}, {wlen}, {lb}, {parts}, {bool_rs(aligned)}>()", unwind=10, params={"window_start_mod64": start, "window_len": wlen, "parts": parts, "len_multiple_of_64": aligned},
                                    symbolic=["per-part length (n*len <= available)", "arena contents"], functions=["poulpy-hal/src/api/scratch.rs::Scratch::split_mut/split_at_mut"], timeout=900,
                                    core=(start == 24 and wlen == 204 and parts == 3) or (start == 0 and wlen == 256 and parts == 2)))
    b = 17
    for be in ("fft64", "ntt120"):
        for nn in (1, 2, 4):
            S = 2
            L = nn * 2 * S
            for op, oname in enumerate(OPS):
                ps = {0: [0, -18, 18], 1: [18], 2: [1, 18, 35], 3: [18], 4: [0, 18, 35], 5: [1, -nn], 6: [3, -1], 7: [1, nn], 8: [0], 9: [18], 10: [18]}[op]
                for p in dict.fromkeys(ps):
                    if be == "ntt120" and not (nn in (2, 4) and p == ps[0]):
                        continue
                    out.append(Instance(crate="hk_hal", family=f"hal.{oname}", name=f"c12_hal_{oname}_{be}_n{nn}_p{sgn(p)}",
                                        call=f"crate::c12::hal_op::<{BE[be]}, {nn}, {S}, {L}, {max(3*nn, 8)}, {op}>({b}, {p})", unwind=max(L, 3 * nn) + 10,
                                        params={"op": oname, "backend": be, "n": nn, "size": S, "base2k": b, "param": p},
                                        symbolic=["all scratch bytes", "operands |x|<2^60", "prior result"], stubs=[("poulpy_cpu_ref::hal_defaults::scratch::take_slice_aligned", "crate::vz::take_slice_aligned_stub")],
                                        functions=[f"{D}/vec_znx.rs::vec_znx_{oname}_default (+ its *_tmp_bytes)", f"{D}/scratch.rs::take_slice_aligned"], timeout=900,
                                        core=(be == "fft64" and nn in (1, 4) and p == ps[0] and op in (0, 2, 4, 5, 9)) or (be == "ntt120" and nn == 2 and op in (0, 4))))
    return out


META = {
    "bounds": "scratch windows: start offsets {0,8,24,40,63} mod 64, lengths {64,100,200,204,256}, take length symbolic; HAL pairs: n in {1,2,4} (limb byte sizes 8/16/32, all below the 64-byte alignment), 2 limbs, 2 columns, base2k=17, FFT64Ref and NTT120Ref marker modules",
    "outside": "poulpy-core / ckks / bin-fhe (operation, tmp_bytes) pairs (their operations run through the DFT; DESIGN §2.4), DFT-domain HAL pairs, multi-thread variants, monotonicity of size queries",
    "assumptions": ["scratch window starts 64-byte aligned for the HAL pairs (as ScratchOwned::alloc provides)"],
    "stubs": ["take_slice_aligned (private, poulpy-cpu-ref/src/hal_defaults/scratch.rs) replaced, in the harnesses that run whole operations, by a copy that derives the 64-byte padding from the window offset inside the 64-byte-aligned harness arena instead of from the pointer integer (same function on these arenas; keeps scratch offsets constant for the engine); the real function is decided by the scratch.take_slice* harnesses"],
}

from common import *

PROPERTY = "C12"
QUICK_SAMPLE = 8
BE = {"fft64": "poulpy_cpu_ref::FFT64Ref", "ntt120": "poulpy_cpu_ref::NTT120Ref"}
OPS = ["normalize", "lsh", "rsh", "lsh_assign", "rsh_assign", "rotate_assign", "automorphism_assign", "mul_xp_minus_one_assign", "normalize_assign", "rsh_add_into", "lsh_sub"]
D = "poulpy-cpu-ref/src/hal_defaults"


def instances(tier, seed):
    out = []
    for start in (0, 8, 24, 40, 63):
        for wlen in (64, 100, 200, 204):
            lb = (start + wlen + 7) // 8 + 1
            out.append(Instance(crate="hk_hal", family="scratch.take_slice", name=f"c12_take_slice_s{start}_w{wlen}",
                                call=f"crate::c12::take_slice::<{start}, {wlen}, {lb}>()", unwind=10, params={"window_start_mod64": start, "window_len": wlen},
                                symbolic=["take length (0..=available)", "arena contents"], functions=[f"{D}/scratch.rs::take_slice_aligned/take_slice_default/scratch_available_default"], timeout=600,
                                core=(start in (0, 24) and wlen in (64, 204))))
    for start in (8, 24, 63):
        for wlen in (64, 204):
            lb = (start + wlen + 7) // 8 + 1
            out.append(Instance(crate="hk_hal", family="scratch.take_slice_refuse", name=f"c12_take_slice_refuse_s{start}_w{wlen}",
                                call=f"crate::c12::take_slice_refuse::<{start}, {wlen}, {lb}>()", unwind=10, params={"window_start_mod64": start, "window_len": wlen},
                                symbolic=["take length in (available, window_len]"], functions=[f"{D}/scratch.rs::take_slice_aligned"], timeout=600, should_panic=True,
                                core=(start == 24 and wlen == 204)))
    for start in (0, 24):
        for wlen in (204, 256):
            for parts, aligned in ((2, True), (3, True), (2, False), (3, False)):
                lb = (start + wlen + 7) // 8 + 1
                out.append(Instance(crate="hk_hal", family="scratch.split_mut", name=f"c12_split_mut_s{start}_w{wlen}_n{parts}{'_al' if aligned else ''}",
                                    call=f"crate::c12::split_mut::<{start}, {wlen}, {lb}, {parts}, {bool_rs(aligned)}>()", unwind=10, params={"window_start_mod64": start, "window_len": wlen, "parts": parts, "len_multiple_of_64": aligned},
                                    symbolic=["per-part length (n*len <= available)", "arena contents"], functions=["poulpy-hal/src/api/scratch.rs::Scratch::split_mut/split_at_mut"], timeout=900,
                                    core=(start == 24 and wlen == 204 and parts == 3) or (start == 0 and wlen == 256 and parts == 2)))
    b = 17
    for be in ("fft64", "ntt120"):
        for nn in (1, 2, 4):
            S = 2
            L = nn * 2 * S
            for op, oname in enumerate(OPS):
                ps = {0: [0, -18, 18], 1: [18], 2: [1, 18, 35], 3: [18], 4: [0, 18, 35], 5: [1, -nn], 6: [3, -1], 7: [1, nn], 8: [0], 9: [18], 10: [18]}[op]
                for p in dict.fromkeys(ps):
                    if be == "ntt120" and not (nn in (2, 4) and p == ps[0]):
                        continue
                    out.append(Instance(crate="hk_hal", family=f"hal.{oname}", name=f"c12_hal_{oname}_{be}_n{nn}_p{sgn(p)}",
                                        call=f"crate::c12::hal_op::<{BE[be]}, {nn}, {S}, {L}, {max(3*nn, 8)}, {op}>({b}, {p})", unwind=max(L, 3 * nn) + 10,
                                        params={"op": oname, "backend": be, "n": nn, "size": S, "base2k": b, "param": p},
                                        symbolic=["all scratch bytes", "operands |x|<2^60", "prior result"], stubs=[("poulpy_cpu_ref::hal_defaults::scratch::take_slice_aligned", "crate::vz::take_slice_aligned_stub")],
                                        functions=[f"{D}/vec_znx.rs::vec_znx_{oname}_default (+ its *_tmp_bytes)", f"{D}/scratch.rs::take_slice_aligned"], timeout=900,
                                        core=(be == "fft64" and nn in (1, 4) and p == ps[0] and op in (0, 2, 4, 5, 9)) or (be == "ntt120" and nn == 2 and op in (0, 4))))
    return out + core_frame_instances(tier=tier) + exact_encrypt_instances()


def exact_encrypt_instances():
    import c01
    out = []
    for n, rank, sp in ((2, 1, 5), (8, 1, 5 + 9 * 7 + 81 * 2)):
        enc, dec = c01.glwe_tmp(n, 1)
        ar = (max(enc, dec) + 7) // 8
        out.append(Instance(crate="hk_core", family="core.glwe_encrypt_decrypt_exact_scratch", name=f"c12_glwe_encdec_exact_n{n}",
                            call=f"crate::c01_glwe::glwe_roundtrip::<{n}, 12, 12, 1, 12, 12, 0, {ar}, true>({rank}, {sp})", unwind=2 * n * (rank + 1) + 12,
                            params={"n": n, "base2k": 12, "k": 12, "rank": rank, "scratch": "exactly glwe_encrypt_sk_tmp_bytes / glwe_decrypt_tmp_bytes"},
                            symbolic=["message", "mask words", "error", "all scratch bytes", "prior ciphertext"], stubs=c01.CORE_STUBS,
                            functions=["poulpy-core/src/encryption/glwe.rs::glwe_encrypt_sk (+ glwe_encrypt_sk_tmp_bytes)", "poulpy-core/src/decryption/glwe.rs::glwe_decrypt_default (+ tmp_bytes)"],
                            timeout=2400, mem_gb=28, core=True))
    return out


FRAME_STUBS = [("std::fmt::format", "crate::stubs::fmt_stub"), ("poulpy_cpu_ref::hal_defaults::scratch::take_slice_aligned", "crate::stubs::take_slice_aligned_stub")]
FRAME_OPS = ["keyswitch", "keyswitch_assign", "external_product", "external_product_assign", "automorphism", "automorphism_assign", "automorphism_add", "automorphism_sub", "automorphism_sub_negate"]
FRAME_FILES = {0: "poulpy-core/src/keyswitching/glwe.rs", 2: "poulpy-core/src/external_product/glwe.rs", 4: "poulpy-core/src/automorphism/glwe_ct.rs"}


def core_frame_instances(ops=None, tier="thorough"):
    out = []
    # (b, bk, k_in, k_key, k_out, dsize, dnum, rank_in, rank_out)
    shapes = [(12, 12) + t for t in [(24, 36, 24, 1, 2, 1, 1), (24, 36, 36, 1, 2, 1, 1), (36, 60, 36, 2, 2, 1, 1), (24, 36, 24, 1, 2, 2, 2), (24, 36, 24, 1, 1, 1, 1), (24, 36, 12, 1, 2, 1, 1), (24, 36, 24, 1, 2, 2, 1), (24, 36, 24, 1, 2, 1, 2)]] + [(17, 12, 34, 36, 34, 1, 3, 1, 1), (12, 17, 24, 34, 24, 1, 2, 1, 1), (12, 12, 36, 60, 60, 3, 1, 1, 1)]
    for op, oname in enumerate(FRAME_OPS):
        if ops is not None and op not in ops:
            continue
        for b, bk, kin, kk, kout, dsize, dnum, ri, ro in shapes:
            if op >= 2 and ri != ro:
                continue
            if dsize == 3 and op > 1:
                continue
            if tier != "thorough" and ((b, bk) != (12, 12) or dsize > 1 or kin != 24):
                continue  # quick tier: the light (radix 12, two-limb, dsize 1) shapes only
            if op >= 6 and (kin != kout or dsize > 1):
                continue
            if op >= 4 and (b, bk) == (17, 12):  # calibrated: the 3-row cross-radix automorphism shapes exceed the time / memory caps
                continue
            if op in (1, 3, 5) and (ri != ro or kin != kout):
                continue
            for p, nsym in [(p, ns) for p in ((-1, 3, 5) if op >= 4 else (0,)) for ns in (2, 999)]:
                core = (b, bk, kin, kk, kout, dsize, dnum, ri, ro) == (12, 12, 24, 36, 24, 1, 2, 1, 1) and p in (0, 3) and nsym == 2 and op in (0, 2, 8)
                if nsym == 999 and not ((b, bk, kin, kk, kout, dsize, dnum, ri, ro) == (12, 12, 24, 36, 24, 1, 2, 1, 1) and p in (0, 3)):
                    continue
                if nsym == 999 and tier != "thorough":
                    continue
                cols_sz = 8 * (max(ri, ro) + 1) * -(-max(kin, kout) // b)
                out.append(Instance(crate="hk_core", family=f"core.{oname}", name=f"c12_core_{oname}_b{b}_{bk}_kin{kin}_kk{kk}_ko{kout}_ds{dsize}_dn{dnum}_r{ri}{ro}_p{sgn(p)}_{'all' if nsym == 999 else f'sym{nsym}'}",
                                    call=f"crate::core_frame::core_frame::<{b}, {bk}, {kin}, {kk}, {kout}, {dsize}, {dnum}, {op}, 1024, 768>({ri}, {ro}, {p}, {nsym})", unwind=max(cols_sz, 8 * (ro + 1) * -(-kk // bk) * (1 if op in (2, 3) else dnum * ri)) + 10,
                                    params={"op": oname, "n": 8, "base2k": b, "key_base2k": bk, "k_in": kin, "k_key": kk, "k_out": kout, "dsize": dsize, "dnum": dnum, "rank_in": ri, "rank_out": ro, "galois_element": p, "symbolic_input_words": "all" if nsym == 999 else nsym},
                                    symbolic=["every limb of the input ciphertext (normalised digits)", "two independent scratch fills (exactly the declared tmp_bytes)", "two independent prior output contents"], stubs=FRAME_STUBS,
                                    functions=[FRAME_FILES[0 if op < 2 else 2 if op < 4 else 4] + f"::glwe_{oname} (+ its *_tmp_bytes)", "poulpy-core/src/keyswitching/glwe.rs::glwe_keyswitch_internal", "poulpy-core/src/layouts/prepared/*.rs::prepare",
                                               "hk_core/src/probe_full.rs: Module<Probe> at N=8 over substituted leaf kernels", "poulpy-cpu-ref/src/reference/fft64/{vmp,vec_znx_dft,vec_znx_big}.rs", "poulpy-cpu-ref/src/hal_defaults/*.rs"],
                                    timeout=2400, mem_gb=28, core=core))
    return out


META = {
    "bounds": "core.* (key-switch, external product, automorphism family of poulpy-core on Module<Probe>, N=8): scratch of exactly the declared size, two runs with independent symbolic scratch and prior output, radices (12,12),(17,12),(12,17), dsize 1..3, ranks 1..2, 2 symbolic input words (all words: thorough); scratch windows: start offsets {0,8,24,40,63} mod 64, lengths {64,100,200,204,256}, take length symbolic; HAL pairs: n in {1,2,4} (limb byte sizes 8/16/32, all below the 64-byte alignment), 2 limbs, 2 columns, base2k=17, FFT64Ref and NTT120Ref marker modules",
    "outside": "the other poulpy-core / ckks / bin-fhe (operation, tmp_bytes) pairs, N < 8 for poulpy-core pairs (known finding: level sizes are summed without the 64-byte re-alignment), DFT-domain HAL pairs, multi-thread variants, monotonicity of size queries",
    "assumptions": ["scratch window starts 64-byte aligned for the HAL pairs (as ScratchOwned::alloc provides)"],
    "stubs": ["take_slice_aligned (private, poulpy-cpu-ref/src/hal_defaults/scratch.rs) replaced, in the harnesses that run whole operations, by a copy that derives the 64-byte padding from the window offset inside the 64-byte-aligned harness arena instead of from the pointer integer (same function on these arenas; keeps scratch offsets constant for the engine); the real function is decided by the scratch.take_slice* harnesses"],
}

from common import *

PROPERTY = "C01"
QUICK_SAMPLE = 10
Z = "poulpy-cpu-ref/src/reference/znx/sampling.rs"
VS = "poulpy-cpu-ref/src/reference/vec_znx/sampling.rs"
U64N = [("poulpy_hal::source::Source::next_u64n", "crate::c06::next_u64n_stub")]
U64E = [("poulpy_hal::source::Source::next_u64n", "crate::c06::next_u64n_echo")]
NORM = [("poulpy_cpu_ref::reference::znx::znx_fill_normal_f64_ref", "crate::c06::fill_normal_stub"), ("poulpy_cpu_ref::reference::znx::znx_add_normal_f64_ref", "crate::c06::add_normal_stub"), ("f64::exp2", "crate::c06::exp2_stub")]


def uniform_instances():
    out = []
    for b in range(1, 64):
        out.append(Instance(crate="hk_hal", family="rand.fill_uniform", name=f"c06_fill_uniform_b{b}", call=f"crate::c06::fill_uniform::<{b}>()", unwind=5,
                            params={"base2k": b}, symbolic=["the random words (via Source::next_u64n stub)", "prior output"], stubs=U64N,
                            functions=[f"{Z}::znx_fill_uniform_ref"], timeout=300, core=b in (1, 2, 17, 52, 62, 63)))
        out.append(Instance(crate="hk_hal", family="rand.fill_uniform_bijection", name=f"c06_fill_uniform_bij_b{b}", call=f"crate::c06::fill_uniform_bijection::<{b}>()", unwind=5,
                            params={"base2k": b}, symbolic=["the random word"], stubs=U64E,
                            functions=[f"{Z}::znx_fill_uniform_ref"], timeout=300, core=b in (1, 17, 63)))
    for b in (3, 17, 52):
        for s in (1, 3):
            for col in (0, 1):
                out.append(Instance(crate="hk_hal", family="rand.vec_fill_uniform", name=f"c06_vec_fill_uniform_b{b}_s{s}_c{col}", call=f"crate::c06::vec_fill_uniform::<{b}, {s}, {2*2*(s+1)}>({col})",
                                    unwind=2 * 2 * (s + 1) + 6, params={"base2k": b, "size": s, "col": col}, symbolic=["the random words", "prior buffer"], stubs=U64N,
                                    functions=[f"{VS}::vec_znx_fill_uniform_ref"], timeout=300, core=(b == 17 and s == 3 and col == 1)))
    return out


def normal_instances():
    out = []
    for add in (False, True):
        out.append(Instance(crate="hk_hal", family="rand.dist_bound_add" if add else "rand.dist_bound_fill", name=f"c01_dist_bound_{'add' if add else 'fill'}",
                            call=f"crate::c06::dist_bound::<{bool_rs(add)}>()", unwind=6, params={"kernel": "znx_add_dist_f64_ref" if add else "znx_fill_dist_f64_ref"},
                            symbolic=["bound in [1, 2^62)", "every draw: arbitrary f64 incl. NaN/inf (third draw assumed accepted)", "prior value"],
                            functions=[f"{Z}::znx_{'add' if add else 'fill'}_dist_f64_ref"], timeout=900, core=True))
    for b in (3, 12, 17, 50, 52):
        for k in sorted({1, b - 1, b, b + 1, 2 * b, 2 * b + 1, 3 * b - 1, 3 * b}):
            if k < 1:
                continue
            s = -(-k // b)
            for add in (False, True):
                col = (k + int(add)) % 2
                out.append(Instance(crate="hk_hal", family="rand.normal_position_add" if add else "rand.normal_position_fill", name=f"c01_normal_pos_{'add' if add else 'fill'}_b{b}_k{k}",
                                    call=f"crate::c06::normal_position::<{b}, {k}, {s}, {2*2*(s+1)}, {bool_rs(add)}>({col})", unwind=2 * 2 * (s + 1) + 6,
                                    params={"base2k": b, "k": k, "size": s, "col": col}, symbolic=["prior buffer", "the written noise values"], stubs=NORM,
                                    functions=[f"{VS}::vec_znx_{'add' if add else 'fill'}_normal_ref", "poulpy-hal/src/layouts/mod.rs::NoiseInfos::target_limb_and_scale"], timeout=600,
                                    core=(b == 17 and k in (18, 34, 51))))
    return out


CORE_STUBS = [("poulpy_hal::source::Source::next_u64n", "crate::stubs::next_u64n_stub"),
              ("poulpy_cpu_ref::reference::znx::znx_add_normal_f64_ref", "crate::stubs::add_normal_stub"),
              ("f64::exp2", "crate::stubs::exp2_stub"), ("f64::log2", "crate::stubs::log2_stub"), ("std::fmt::format", "crate::stubs::fmt_stub"),
              ("poulpy_cpu_ref::hal_defaults::scratch::take_slice_aligned", "crate::stubs::take_slice_aligned_stub")]


def lwe_instances():
    out = []
    for b in (3, 12, 17):
        for k in sorted({b, b + 1, 2 * b, 2 * b + 1, 3 * b - 1, 3 * b}):
            size = -(-k // b)
            # the configured bound (19.2 at 2^-k) must be far below the ciphertext modulus, else m+e wraps
            if 19.2 * 2 ** (size * b - k) >= 2 ** (size * b - 2):
                continue
            for ps in sorted({size, max(size - 1, 1)}):
                for s0, s1 in ((1, -1), (0, 1), (-1, -1), (0, 0)):
                    out.append(Instance(crate="hk_core", family="lwe.encrypt_decrypt", name=f"c01_lwe_b{b}_k{k}_ps{ps}_s{sgn(s0)}_{sgn(s1)}",
                                        call=f"crate::c01_lwe::lwe_roundtrip::<{b}, {k}, {ps}>({s0}, {s1})", unwind=3 * size + 8,
                                        params={"base2k": b, "k": k, "pt_limbs": ps, "ct_limbs": size, "secret": [s0, s1], "n_lwe": 2},
                                        symbolic=["message digits (normalised, incl. extremes)", "mask words", "error |e|<=bound*scale", "all scratch bytes", "prior ciphertext content"], stubs=CORE_STUBS,
                                        functions=["poulpy-core/src/encryption/lwe.rs::lwe_encrypt_sk (+ lwe_encrypt_sk_tmp_bytes)", "poulpy-core/src/decryption/lwe.rs::lwe_decrypt_default (+ tmp_bytes)",
                                                   "poulpy-cpu-ref/src/reference/vec_znx/sampling.rs::vec_znx_fill_uniform_ref/vec_znx_add_normal_ref", "poulpy-cpu-ref/src/reference/vec_znx/normalize.rs"],
                                        timeout=2400, mem_gb=16, core=((b, k, ps) in ((3, 9, 2), (12, 12, 1)) and (s0, s1) == (1, -1))))
    return out


PROBE_FUNCS = ["hk_core/src/probe_full.rs: Module<Probe> = repository hal_impl_*! macros + fft64/znx.rs bindings + impl_core_default_methods! over substituted leaf kernels (identity FFT of size 1, exact integer reim arithmetic)",
               "poulpy-cpu-ref/src/hal_defaults/{vec_znx,vec_znx_big,vec_znx_dft,svp_ppol,scratch}.rs", "poulpy-cpu-ref/src/reference/fft64/{vec_znx_dft,svp,vec_znx_big}.rs", "poulpy-cpu-ref/src/reference/vec_znx/*.rs"]


def glwe_tmp(n, size):
    enc = max(8 * n * size, 24 * n) + 2 * 8 * n * size + 24 * n
    dec = 8 * n * size + max(8 * n * size, 24 * n)
    return enc, dec


def secret_code(n, rank, variant):
    # base-3 digits (0 -> 0, 1 -> 1, 2 -> -1), column-major; variant 0: mixed signs, 1: zero secret, 2: all -1
    digs = []
    for c in range(rank):
        for i in range(n):
            digs.append({0: (2, 1, 0, 1, 2, 2, 1, 0)[(c * n + i) % 8], 1: 0, 2: 2}[variant])
    return sum(d * 3**i for i, d in enumerate(digs)), [{0: 0, 1: 1, 2: -1}[d] for d in digs]


def glwe_instances():
    out = []
    shapes = []  # (b, k, ps, bo, ko)
    for b in (12, 17):
        for k in (b, b + 1, 2 * b + 1):
            size = -(-k // b)
            for ps in sorted({size, max(size - 1, 1)}):
                shapes.append((b, k, ps, b, k))
    # output plaintext narrower / of another radix than the ciphertext
    shapes += [(12, 13, 2, 12, 12), (5, 15, 3, 12, 12), (12, 24, 2, 5, 20), (8, 24, 3, 17, 17), (5, 15, 2, 3, 15)]
    for n in (2, 8):
      for b, k, ps, bo, ko in shapes:
        size = -(-k // b)
        if n == 8 and (size > 2 or bo != b):
            continue
        for rank in (1, 2):
            for variant in (0, 1, 2):
                sp, sec = secret_code(n, rank, variant)
                enc, dec = glwe_tmp(n, size)
                slack = 192 if n < 8 else 0
                symscr = size == 1 or n == 8
                ar = (max(enc, dec) + slack + 7) // 8
                core = (n, b, k, ps, bo, ko, rank, variant) in ((2, 12, 12, 1, 12, 12, 1, 0), (2, 17, 35, 3, 17, 35, 2, 0), (2, 5, 15, 3, 12, 12, 1, 0), (8, 12, 13, 2, 12, 13, 1, 0))
                out.append(Instance(crate="hk_core", family="glwe.encrypt_decrypt", name=f"c01_glwe_n{n}_b{b}_k{k}_ps{ps}_o{bo}_{ko}_r{rank}_v{variant}",
                                    call=f"crate::c01_glwe::glwe_roundtrip::<{n}, {b}, {k}, {ps}, {bo}, {ko}, {slack}, {ar}, {bool_rs(symscr)}>({rank}, {sp})", unwind=max(3 * size, n * (rank + 1) * size, 3 * -(-ko // bo), n * -(-ko // bo)) + 10,
                                    params={"n": n, "base2k": b, "k": k, "rank": rank, "pt_limbs": ps, "ct_limbs": size, "out_base2k": bo, "out_k": ko, "secret": sec, "scratch_slack_bytes": slack, "scratch_contents": "symbolic" if symscr else "fixed pattern 0x5a"},
                                    symbolic=["message digits (normalised, incl. extremes)", "mask words", "error |e|<=bound*scale", "prior ciphertext content"] + (["all scratch bytes"] if symscr else []), stubs=CORE_STUBS,
                                    functions=["poulpy-core/src/encryption/glwe.rs::glwe_encrypt_sk / glwe_encrypt_sk_internal", "poulpy-core/src/decryption/glwe.rs::glwe_decrypt_default",
                                               "poulpy-core/src/layouts/prepared/glwe_secret.rs::glwe_secret_prepare"] + PROBE_FUNCS,
                                    timeout=2400, mem_gb=24, core=core))
    return out


def glwe_decrypt_instances():
    out = []
    shapes = [(12, 12, 12, 12), (17, 35, 17, 35), (12, 24, 12, 12), (17, 35, 17, 17), (5, 15, 12, 12), (8, 24, 17, 17), (12, 24, 5, 20), (5, 15, 3, 15), (8, 39, 17, 34), (17, 34, 8, 39), (12, 13, 12, 24)]
    for b, k, bo, ko in shapes:
        size = -(-k // b)
        for rank in (1, 2, 3):
            for variant in (0, 1, 2):
                sp, sec = secret_code(2, rank, variant)
                _, dec = glwe_tmp(2, size)
                ar = (dec + 128 + 64 * 3 + 7) // 8
                core = (b, k, bo, ko, rank, variant) in ((17, 35, 17, 35, 2, 0), (8, 24, 17, 17, 1, 0), (12, 24, 5, 20, 1, 2), (17, 35, 17, 17, 3, 0))
                out.append(Instance(crate="hk_core", family="glwe.decrypt_vs_phase_oracle", name=f"c01_glwe_dec_b{b}_k{k}_o{bo}_{ko}_r{rank}_v{variant}",
                                    call=f"crate::c01_glwe::glwe_decrypt_oracle::<{b}, {k}, {bo}, {ko}, {ar}>({rank}, {sp})", unwind=max(3 * size, 2 * (rank + 1) * size, 3 * -(-ko // bo), 2 * -(-ko // bo)) + 10,
                                    params={"n": 2, "base2k": b, "k": k, "rank": rank, "ct_limbs": size, "out_base2k": bo, "out_k": ko, "secret": sec},
                                    symbolic=["every ciphertext limb (normalised digits)", "prior plaintext content"], stubs=[CORE_STUBS[-1], CORE_STUBS[-2]],
                                    functions=["poulpy-core/src/decryption/glwe.rs::glwe_decrypt_default", "poulpy-core/src/layouts/prepared/glwe_secret.rs::glwe_secret_prepare"] + PROBE_FUNCS,
                                    timeout=1800, mem_gb=24, core=core))
    return out


def instances(tier, seed):
    return normal_instances() + lwe_instances() + glwe_instances() + glwe_decrypt_instances()


META = {
    "bounds": "GLWE secret-key encrypt->decrypt on Module<Probe>: n=2 (size-1 FFT = identity; float leaf kernels replaced by exact integer kernels) and n=8 (ring Z[i]^4: the statement is ring-generic; exact-size symbolic scratch), rank 1..2; glwe_decrypt against an exact negacyclic phase oracle at n=2, ranks 1..3, 11 (ciphertext, plaintext) radix/precision pairs; base2k in {12,17}, k in {b,b+1,2b+1}, plaintext with size or size-1 limbs, three concrete ternary secrets, scratch = declared size + 192 bytes; LWE: n_lwe=2; base2k 1..63 for the uniform digit kernel; Gaussian kernels: bound in [1,2^62), 0..2 rejections; error position: base2k in {3,12,17,50,52}, k up to 3 limbs",
    "outside": "statistics (empirical sigma, uniformity as a frequency), ChaCha8 / ziggurat themselves, seed branching (Source::branch: real ChaCha needs cpuid, unsupported), IEEE rounding of the real f64 kernels and the FFT for n>=4 (C07), public-key / compressed encryption unless listed in the families, ring degrees n>=4 for the end-to-end harnesses",
    "assumptions": ["Source::next_u64n replaced by a stub drawing one arbitrary word (its 4-line body is read, not executed)", "Gaussian draw replaced by an arbitrary f64 through the real generic znx_*_dist_f64_ref; the *_normal_* copies of that loop are covered for position/scale only"],
    "stubs": ["poulpy_hal::source::Source::next_u64n", "znx_fill_normal_f64_ref / znx_add_normal_f64_ref (position harness only)", "f64::exp2 / f64::log2 (exact / constant)", "std::fmt::format", "take_slice_aligned (private, hal_defaults/scratch.rs) replaced by a copy deriving the 64-byte padding from the window offset inside the aligned harness arena instead of the pointer integer (same function on these arenas; the real one is decided by C12 scratch.take_slice*)"],
}
THOROUGH_SAMPLE = 80

from common import *

PROPERTY = "C01"
QUICK_SAMPLE = 0
Z = "poulpy-cpu-ref/src/reference/znx/sampling.rs"
VS = "poulpy-cpu-ref/src/reference/vec_znx/sampling.rs"
U64N = [("poulpy_hal::source::Source::next_u64n", "crate::c06::next_u64n_stub")]
U64E = [("poulpy_hal::source::Source::next_u64n", "crate::c06::next_u64n_echo")]
NORM = [("poulpy_cpu_ref::reference::znx::znx_fill_normal_f64_ref", "crate::c06::fill_normal_stub"), ("poulpy_cpu_ref::reference::znx::znx_add_normal_f64_ref", "crate::c06::add_normal_stub"), ("f64::exp2", "crate::c06::exp2_stub")]


def uniform_instances():
    out = []
    for b in range(1, 64):
        out.append(Instance(crate="hk_hal", family="rand.fill_uniform", name=f"c06_fill_uniform_b{b}", call=f"crate::c06::fill_uniform::<{b}>()", unwind=5,
                            params={"base2k": b}, symbolic=["the random words (via Source::next_u64n stub)", "prior output"], stubs=U64N,
                            functions=[f"{Z}::znx_fill_uniform_ref"], timeout=300, core=b in (1, 2, 17, 52, 62, 63)))
        out.append(Instance(crate="hk_hal", family="rand.fill_uniform_bijection", name=f"c06_fill_uniform_bij_b{b}", call=f"crate::c06::fill_uniform_bijection::<{b}>()", unwind=5,
                            params={"base2k": b}, symbolic=["the random word"], stubs=U64E,
                            functions=[f"{Z}::znx_fill_uniform_ref"], timeout=300, core=b in (1, 17, 63)))
    for b in (3, 17, 52):
        for s in (1, 3):
            for col in (0, 1):
                out.append(Instance(crate="hk_hal", family="rand.vec_fill_uniform", name=f"c06_vec_fill_uniform_b{b}_s{s}_c{col}", call=f"crate::c06::vec_fill_uniform::<{b}, {s}, {2*2*(s+1)}>({col})",
                                    unwind=2 * 2 * (s + 1) + 6, params={"base2k": b, "size": s, "col": col}, symbolic=["the random words", "prior buffer"], stubs=U64N,
                                    functions=[f"{VS}::vec_znx_fill_uniform_ref"], timeout=300, core=(b == 17 and s == 3 and col == 1)))
    return out


def normal_instances():
    out = []
    for add in (False, True):
        out.append(Instance(crate="hk_hal", family="rand.dist_bound_add" if add else "rand.dist_bound_fill", name=f"c01_dist_bound_{'add' if add else 'fill'}",
                            call=f"crate::c06::dist_bound::<{bool_rs(add)}>()", unwind=6, params={"kernel": "znx_add_dist_f64_ref" if add else "znx_fill_dist_f64_ref"},
                            symbolic=["bound in [1, 2^62)", "every draw: arbitrary f64 incl. NaN/inf (third draw assumed accepted)", "prior value"],
                            functions=[f"{Z}::znx_{'add' if add else 'fill'}_dist_f64_ref"], timeout=900, core=True))
    for b in (3, 12, 17, 50, 52):
        for k in sorted({1, b - 1, b, b + 1, 2 * b, 2 * b + 1, 3 * b - 1, 3 * b}):
            if k < 1:
                continue
            s = -(-k // b)
            for add in (False, True):
                col = (k + int(add)) % 2
                out.append(Instance(crate="hk_hal", family="rand.normal_position_add" if add else "rand.normal_position_fill", name=f"c01_normal_pos_{'add' if add else 'fill'}_b{b}_k{k}",
                                    call=f"crate::c06::normal_position::<{b}, {k}, {s}, {2*2*(s+1)}, {bool_rs(add)}>({col})", unwind=2 * 2 * (s + 1) + 6,
                                    params={"base2k": b, "k": k, "size": s, "col": col}, symbolic=["prior buffer", "the written noise values"], stubs=NORM,
                                    functions=[f"{VS}::vec_znx_{'add' if add else 'fill'}_normal_ref", "poulpy-hal/src/layouts/mod.rs::NoiseInfos::target_limb_and_scale"], timeout=600,
                                    core=(b == 17 and k in (18, 34, 51))))
    return out


CORE_STUBS = [("poulpy_hal::source::Source::next_u64n", "crate::stubs::next_u64n_stub"),
              ("poulpy_cpu_ref::reference::znx::znx_add_normal_f64_ref", "crate::stubs::add_normal_stub"),
              ("f64::exp2", "crate::stubs::exp2_stub"), ("f64::log2", "crate::stubs::log2_stub"), ("std::fmt::format", "crate::stubs::fmt_stub")]


def lwe_instances():
    out = []
    for b in (3, 12, 17):
        for k in sorted({b, b + 1, 2 * b, 2 * b + 1, 3 * b - 1, 3 * b}):
            size = -(-k // b)
            # the configured bound (19.2 at 2^-k) must be far below the ciphertext modulus, else m+e wraps
            if 19.2 * 2 ** (size * b - k) >= 2 ** (size * b - 2):
                continue
            for ps in sorted({size, max(size - 1, 1)}):
                for s0, s1 in ((1, -1), (0, 1), (-1, -1), (0, 0)):
                    out.append(Instance(crate="hk_core", family="lwe.encrypt_decrypt", name=f"c01_lwe_b{b}_k{k}_ps{ps}_s{sgn(s0)}_{sgn(s1)}",
                                        call=f"crate::c01_lwe::lwe_roundtrip::<{b}, {k}, {ps}>({s0}, {s1})", unwind=3 * size + 8,
                                        params={"base2k": b, "k": k, "pt_limbs": ps, "ct_limbs": size, "secret": [s0, s1], "n_lwe": 2},
                                        symbolic=["message digits (normalised, incl. extremes)", "mask words", "error |e|<=bound*scale", "all scratch bytes", "prior ciphertext content"], stubs=CORE_STUBS,
                                        functions=["poulpy-core/src/encryption/lwe.rs::lwe_encrypt_sk (+ lwe_encrypt_sk_tmp_bytes)", "poulpy-core/src/decryption/lwe.rs::lwe_decrypt_default (+ tmp_bytes)",
                                                   "poulpy-cpu-ref/src/reference/vec_znx/sampling.rs::vec_znx_fill_uniform_ref/vec_znx_add_normal_ref", "poulpy-cpu-ref/src/reference/vec_znx/normalize.rs"],
                                        timeout=2400, mem_gb=16, core=((b, k, ps) in ((3, 9, 2), (12, 12, 1)) and (s0, s1) == (1, -1))))
    return out


def instances(tier, seed):
    return normal_instances() + lwe_instances()


META = {
    "bounds": "base2k 1..63 for the uniform digit kernel; Gaussian kernels: bound in [1,2^62), 0..2 rejections; error position: base2k in {3,12,17,50,52}, k up to 3 limbs",
    "outside": "statistics (empirical sigma, uniformity as a frequency), ChaCha8 / ziggurat themselves, seed branching (Source::branch: real ChaCha needs cpuid, unsupported), information flow through encryption (needs the DFT products; DESIGN §2.4)",
    "assumptions": ["Source::next_u64n replaced by a stub drawing one arbitrary word (its 4-line body is read, not executed)", "Gaussian draw replaced by an arbitrary f64 through the real generic znx_*_dist_f64_ref; the *_normal_* copies of that loop are covered for position/scale only"],
    "stubs": ["poulpy_hal::source::Source::next_u64n", "znx_fill_normal_f64_ref / znx_add_normal_f64_ref (position harness only)"],
}
THOROUGH_SAMPLE = 6

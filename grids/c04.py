from common import *

PROPERTY = "C04"
QUICK_SAMPLE = 0
EP_STUBS = [("poulpy_hal::source::Source::next_u64n", "crate::c03_ks::next_u64n_lcg"),
            ("poulpy_cpu_ref::reference::znx::znx_add_normal_f64_ref", "crate::stubs::add_normal_stub"),
            ("f64::exp2", "crate::stubs::exp2_stub"), ("f64::log2", "crate::stubs::log2_stub"), ("std::fmt::format", "crate::stubs::fmt_stub"),
            ("poulpy_cpu_ref::hal_defaults::scratch::take_slice_aligned", "crate::stubs::take_slice_aligned_stub")]
M2 = {0: "1+X+X^2+X^3 (identity of the substituted ring)", 1: "X^5-2", 2: "dense small (1,-1,2,0,-2,1,0,3)", 3: "0"}


def instances(tier, seed):
    import c03
    out = []
    # (b, k_in, k_ggsw, k_out, dsize, dnum, in_place); dnum*dsize >= input limbs and k_out >= k_ggsw: exact
    shapes = [(12, 24, 36, 36, 1, 2, False), (4, 8, 8, 8, 1, 2, True), (12, 36, 36, 36, 1, 3, True), (12, 24, 48, 48, 2, 1, False), (12, 36, 60, 60, 2, 2, False), (4, 8, 12, 12, 1, 2, False), (4, 12, 12, 12, 1, 3, True)]
    for b, kin, kg, kout, dsize, dnum, inpl in shapes:
        for rank in (1, 2):
            for mp in (0, 1, 2, 3):
                for variant, nsym in ((0, 2), (2, 2), (0, 999)):
                    if nsym == 999 and not ((b, kin, dsize, rank, mp) == (4, 8, 1, 1, 2)):
                        continue
                    if nsym == 999 and tier != "thorough":
                        continue
                    sp, sec = c03.secret8(rank, variant)
                    core = (b, kin, kg, kout, dsize, dnum, inpl, rank, mp, variant, nsym) in ((12, 24, 36, 36, 1, 2, False, 1, 2, 0, 2), (4, 8, 8, 8, 1, 2, True, 1, 1, 0, 2))
                    rawlen = 8 * (rank + 1) * -(-max(kin, kout) // b)
                    out.append(Instance(crate="hk_core", family="ep.glwe_external_product_assign" if inpl else "ep.glwe_external_product",
                                        name=f"c04_ep{'_assign' if inpl else ''}_b{b}_kin{kin}_kg{kg}_ko{kout}_ds{dsize}_dn{dnum}_r{rank}_m{mp}_v{variant}_{'all' if nsym == 999 else f'sym{nsym}'}",
                                        call=f"crate::c04_ep::glwe_external_product_value::<{b}, {kin}, {kg}, {kout}, {dsize}, {dnum}, {bool_rs(inpl)}, 2048, 1024>({rank}, {sp}, {mp}, {nsym})", unwind=rawlen + 10,
                                        params={"n": 8, "base2k": b, "k_in": kin, "k_ggsw": kg, "k_out": kout, "dsize": dsize, "dnum": dnum, "rank": rank, "m2": M2[mp], "secret": sec, "symbolic_input_words": "all" if nsym == 999 else nsym},
                                        symbolic=["input ciphertext words (see symbolic_input_words; the rest a fixed digit pattern)", "prior output content", "external-product scratch (exactly glwe_external_product_tmp_bytes)"], stubs=EP_STUBS,
                                        functions=["poulpy-core/src/external_product/glwe.rs::glwe_external_product / _assign / _internal (+ tmp_bytes)", "poulpy-core/src/encryption/ggsw.rs::ggsw_encrypt_sk", "poulpy-core/src/layouts/prepared/ggsw.rs::ggsw_prepare",
                                                   "poulpy-core/src/decryption/glwe.rs::glwe_decrypt_default"] + c03.PROBE8,
                                        timeout=2400 if nsym == 999 else 3000, mem_gb=28, core=core))
    return out


META = {
    "bounds": "glwe_external_product (out of place / in place) on Module<Probe> at N=8: radix 12 and 4, dsize 1..2, dnum 1..3, rank 1..2, four concrete GGSW plaintexts m2, two concrete ternary secrets, GGSW from the real ggsw_encrypt_sk with zero noise, 2 symbolic input words in the quick tier (all words: thorough), exact-size symbolic scratch, symbolic prior output",
    "outside": "THE NEGACYCLIC RING: the substituted backend multiplies in Z[i]^4, so m1*m2 is decided over that ring (every gadget / digit / limb / scale rule of the external product is exercised; that the real FFT backend multiplies in Z[X]/(X^N+1) is C07 and is not decided); CMux, GGLWE/GGSW external products, GGSW row expansion, noise bounds, radix mismatches (their scratch/frame behaviour is under C12), N > 8",
    "assumptions": ["the statement is ring-generic: decided in the ring in which the substituted leaf kernels multiply exactly, against a big-integer oracle of that ring's product"],
    "stubs": ["Source::next_u64n -> deterministic LCG (GGSW mask)", "znx_add_normal_f64_ref with bound 0 (noise-free GGSW)", "f64::exp2 / f64::log2", "std::fmt::format", "take_slice_aligned stand-in (see C12)"],
}
THOROUGH_SAMPLE = 40

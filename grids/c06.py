from common import *

PROPERTY = "C06"
QUICK_SAMPLE = 6
Z = "poulpy-cpu-ref/src/reference/znx/sampling.rs"
VS = "poulpy-cpu-ref/src/reference/vec_znx/sampling.rs"
U64N = [("poulpy_hal::source::Source::next_u64n", "crate::c06::next_u64n_stub")]
U64E = [("poulpy_hal::source::Source::next_u64n", "crate::c06::next_u64n_echo")]
NORM = [("poulpy_cpu_ref::reference::znx::znx_fill_normal_f64_ref", "crate::c06::fill_normal_stub"), ("poulpy_cpu_ref::reference::znx::znx_add_normal_f64_ref", "crate::c06::add_normal_stub"), ("f64::exp2", "crate::c06::exp2_stub")]


def uniform_instances():
    out = []
    for b in range(1, 64):
        out.append(Instance(crate="hk_hal", family="rand.fill_uniform", name=f"c06_fill_uniform_b{b}", call=f"crate::c06::fill_uniform::<{b}>()", unwind=5,
                            params={"base2k": b}, symbolic=["the random words (via Source::next_u64n stub)", "prior output"], stubs=U64N,
                            functions=[f"{Z}::znx_fill_uniform_ref"], timeout=300, core=b in (1, 2, 17, 52, 62, 63)))
        out.append(Instance(crate="hk_hal", family="rand.fill_uniform_bijection", name=f"c06_fill_uniform_bij_b{b}", call=f"crate::c06::fill_uniform_bijection::<{b}>()", unwind=5,
                            params={"base2k": b}, symbolic=["the random word"], stubs=U64E,
                            functions=[f"{Z}::znx_fill_uniform_ref"], timeout=300, core=b in (1, 17, 63)))
    for b in (3, 17, 52):
        for s in (1, 3):
            for col in (0, 1):
                out.append(Instance(crate="hk_hal", family="rand.vec_fill_uniform", name=f"c06_vec_fill_uniform_b{b}_s{s}_c{col}", call=f"crate::c06::vec_fill_uniform::<{b}, {s}, {2*2*(s+1)}>({col})",
                                    unwind=2 * 2 * (s + 1) + 6, params={"base2k": b, "size": s, "col": col}, symbolic=["the random words", "prior buffer"], stubs=U64N,
                                    functions=[f"{VS}::vec_znx_fill_uniform_ref"], timeout=300, core=(b == 17 and s == 3 and col == 1)))
    return out


def normal_instances():
    out = []
    for add in (False, True):
        out.append(Instance(crate="hk_hal", family="rand.dist_bound_add" if add else "rand.dist_bound_fill", name=f"c01_dist_bound_{'add' if add else 'fill'}",
                            call=f"crate::c06::dist_bound::<{bool_rs(add)}>()", unwind=6, params={"kernel": "znx_add_dist_f64_ref" if add else "znx_fill_dist_f64_ref"},
                            symbolic=["bound in [1, 2^62)", "every draw: arbitrary f64 incl. NaN/inf (third draw assumed accepted)", "prior value"],
                            functions=[f"{Z}::znx_{'add' if add else 'fill'}_dist_f64_ref"], timeout=900, core=True))
    for b in (3, 12, 17, 50, 52):
        for k in sorted({1, b - 1, b, b + 1, 2 * b, 2 * b + 1, 3 * b - 1, 3 * b}):
            if k < 1:
                continue
            s = -(-k // b)
            for add in (False, True):
                col = (k + int(add)) % 2
                out.append(Instance(crate="hk_hal", family="rand.normal_position_add" if add else "rand.normal_position_fill", name=f"c01_normal_pos_{'add' if add else 'fill'}_b{b}_k{k}",
                                    call=f"crate::c06::normal_position::<{b}, {k}, {s}, {2*2*(s+1)}, {bool_rs(add)}>({col})", unwind=2 * 2 * (s + 1) + 6,
                                    params={"base2k": b, "k": k, "size": s, "col": col}, symbolic=["prior buffer", "the written noise values"], stubs=NORM,
                                    functions=[f"{VS}::vec_znx_{'add' if add else 'fill'}_normal_ref", "poulpy-hal/src/layouts/mod.rs::NoiseInfos::target_limb_and_scale"], timeout=600,
                                    core=(b == 17 and k in (18, 34, 51))))
    return out


def instances(tier, seed):
    import importlib
    c01 = importlib.import_module("c01")
    lwe = [i for i in c01.lwe_instances()]
    for i in lwe:
        i.name = "c06s_" + i.name
        i.core = i.core and i.params["base2k"] == 12
    c19 = importlib.import_module("c19")
    glwe = [i for i in c01.glwe_instances() if i.params["n"] == 2 and i.params["out_base2k"] == i.params["base2k"]]
    for i in glwe:
        i.name = "c06s_" + i.name
        i.core = i.core and i.params["k"] == 12
    seeds = [i for i in c19.enc_instances(tier) if "gglwe" in i.name and ("b12_k36_ds2_dn1" in i.name or tier == "thorough")]
    for i in seeds:
        i.name = "c06s_" + i.name
        i.core = "b12_k36_ds2_dn1_r21_sym1" in i.name
    return uniform_instances() + normal_instances() + lwe + glwe + seeds


META = {
    "bounds": "GLWE encrypt->decrypt on Module<Probe> (N=2): decryption error == sampled error exactly (shapes of C01); compressed GGLWE: per-cell mask seeds pairwise distinct (stream model of C19); base2k 1..63 for the uniform digit kernel; Gaussian kernels: bound in [1,2^62), 0..2 rejections; error position: base2k in {3,12,17,50,52}, k up to 3 limbs",
    "outside": "statistics (empirical sigma, uniformity as a frequency), ChaCha8 / ziggurat themselves, the other key-material encryptors (switching / automorphism / tensor / GGSW / public / blind-rotation keys), non-interference of plaintext and secret with the mask as a two-run statement",
    "assumptions": ["Source::next_u64n replaced by a stub drawing one arbitrary word (its 4-line body is read, not executed)", "Gaussian draw replaced by an arbitrary f64 through the real generic znx_*_dist_f64_ref; the *_normal_* copies of that loop are covered for position/scale only"],
    "stubs": ["poulpy_hal::source::Source::next_u64n", "znx_fill_normal_f64_ref / znx_add_normal_f64_ref (position harness only)"],
}

from common import *

PROPERTY = "C08"
QUICK_SAMPLE = 0
ZNX = "poulpy-cpu-ref/src/reference/znx/normalization.rs"

KERNELS = [
    # (family, generic-suffix variants, symbolic description, function)
    ("first_step_carry_only", [""], "znx_normalize_first_step_carry_only_ref"),
    ("first_step_assign", [""], "znx_normalize_first_step_assign_ref"),
    ("first_step", [", true", ", false"], "znx_normalize_first_step_ref"),
    ("middle_step_carry_only", [""], "znx_normalize_middle_step_carry_only_ref"),
    ("middle_step_assign", [""], "znx_normalize_middle_step_assign_ref"),
    ("middle_step", [", true", ", false"], "znx_normalize_middle_step_ref"),
    ("middle_step_sub", [""], "znx_normalize_middle_step_sub_ref"),
    ("final_step_assign", [""], "znx_normalize_final_step_assign_ref"),
    ("final_step", [", true", ", false"], "znx_normalize_final_step_ref"),
    ("final_step_sub", [""], "znx_normalize_final_step_sub_ref"),
    ("extract_digit_addmul", [""], "znx_extract_digit_addmul_ref"),
    ("normalize_digit", [""], "znx_normalize_digit_ref"),
    ("digit_carry", [""], "get_digit_i64/get_carry_i64"),
    ("digit_carry_i128", [""], "get_digit_i128/get_carry_i128"),
]


def kernel_instances(tier):
    out = []
    bs = B_QUICK if tier == "quick" else B_THOROUGH
    for b in bs:
        for fam, variants, fn in KERNELS:
            for v in variants:
                tag = {"": "", ", true": "_ow", ", false": "_acc"}[v]
                out.append(
                    Instance(
                        crate="hk_hal",
                        family=f"kern.{fam}",
                        name=f"c08k_{fam}{tag}_b{b}",
                        call=f"crate::c08_kernels::{fam}::<{b}{v}>()",
                        unwind=3,
                        params={"base2k": b, "overwrite": v.strip(", ") or None},
                        symbolic=["lsh in [0,base2k)", "a,c_in,x_prev: |.|<2^61"],
                        functions=[f"{ZNX}::{fn}"],
                        timeout=300,
                    )
                )
    # power-of-two kernels: shift amounts enumerated
    ks = [1, 2, 3, 11, 12, 17, 31, 32, 50, 61] if tier == "quick" else list(range(1, 62))
    for k in ks:
        for neg in (False, True):
            for mode, mname in enumerate(["into", "assign", "add"]):
                out.append(
                    Instance(
                        crate="hk_hal",
                        family=f"kern.mul_power_of_two.{mname}",
                        name=f"c08k_mulpow2_{mname}_{'neg' if neg else 'pos'}{k}",
                        call=f"crate::c08_kernels::mul_power_of_two::<{k}, {bool_rs(neg)}, {mode}>()",
                        unwind=3,
                        params={"k": -k if neg else k, "mode": mname},
                        symbolic=["x, res_prev: |.|<2^61"],
                        functions=["poulpy-cpu-ref/src/reference/znx/mul.rs::znx_mul_power_of_two_ref/_assign_ref/znx_mul_add_power_of_two_ref"],
                        timeout=300,
                    )
                )
    return out


def instances(tier, seed):
    return kernel_instances(tier)


META = {
    "bounds": "base2k from B_quick/B_thorough (concrete per instance), n=1 coefficient (kernels are zip loops, coefficient-wise), lsh symbolic in [0,base2k), data |x|<2^61",
    "outside": "values with |x| >= 2^61 (kernels wrap there), AVX kernels (C10), n>1 (identical conjuncts)",
    "assumptions": ["headroom domain |a|,|carry|,|x_prev| < 2^61 (DESIGN §4)"],
    "stubs": [],
}

from common import *

PROPERTY = "C08"
ZNX = "poulpy-cpu-ref/src/reference/znx/normalization.rs"

KERNELS = [
    # (family, generic-suffix variants, symbolic description, function)
    ("first_step_carry_only", [""], "znx_normalize_first_step_carry_only_ref"),
    ("first_step_assign", [""], "znx_normalize_first_step_assign_ref"),
    ("first_step", [", true", ", false"], "znx_normalize_first_step_ref"),
    ("middle_step_carry_only", [""], "znx_normalize_middle_step_carry_only_ref"),
    ("middle_step_assign", [""], "znx_normalize_middle_step_assign_ref"),
    ("middle_step", [", true", ", false"], "znx_normalize_middle_step_ref"),
    ("middle_step_sub", [""], "znx_normalize_middle_step_sub_ref"),
    ("final_step_assign", [""], "znx_normalize_final_step_assign_ref"),
    ("final_step", [", true", ", false"], "znx_normalize_final_step_ref"),
    ("final_step_sub", [""], "znx_normalize_final_step_sub_ref"),
    ("extract_digit_addmul", [""], "znx_extract_digit_addmul_ref"),
    ("normalize_digit", [""], "znx_normalize_digit_ref"),
    ("digit_carry", [""], "get_digit_i64/get_carry_i64"),
    ("digit_carry_i128", [""], "get_digit_i128/get_carry_i128"),
]


def kernel_instances(tier):
    out = []
    bs = [1, 2, 17, 32, 52, 62] if tier == "quick" else B_THOROUGH
    for b in bs:
        for fam, variants, fn in KERNELS:
            for v in variants:
                tag = {"": "", ", true": "_ow", ", false": "_acc"}[v]
                out.append(
                    Instance(
                        crate="hk_hal",
                        family=f"kern.{fam}",
                        name=f"c08k_{fam}{tag}_b{b}",
                        call=f"crate::c08_kernels::{fam}::<{b}{v}>()",
                        unwind=3,
                        params={"base2k": b, "overwrite": v.strip(", ") or None},
                        symbolic=["lsh in [0,base2k)", "a,c_in,x_prev: |.|<2^61"],
                        functions=[f"{ZNX}::{fn}"],
                        timeout=300,
                    )
                )
    # power-of-two kernels: shift amounts enumerated
    ks = [1, 17, 61] if tier == "quick" else list(range(1, 62))
    for k in ks:
        for neg in (False, True):
            for mode, mname in enumerate(["into", "assign", "add"]):
                out.append(
                    Instance(
                        crate="hk_hal",
                        family=f"kern.mul_power_of_two.{mname}",
                        name=f"c08k_mulpow2_{mname}_{'neg' if neg else 'pos'}{k}",
                        call=f"crate::c08_kernels::mul_power_of_two::<{k}, {bool_rs(neg)}, {mode}>()",
                        unwind=3,
                        params={"k": -k if neg else k, "mode": mname},
                        symbolic=["x, res_prev: |.|<2^61"],
                        functions=["poulpy-cpu-ref/src/reference/znx/mul.rs::znx_mul_power_of_two_ref/_assign_ref/znx_mul_add_power_of_two_ref"],
                        timeout=300,
                    )
                )
    return out


KERN = {"fft64": "poulpy_cpu_ref::FFT64Ref", "ntt120": "poulpy_cpu_ref::NTT120Ref", "znxref": "poulpy_cpu_ref::reference::znx::ZnxRef"}
NORM = "poulpy-cpu-ref/src/reference/vec_znx/normalize.rs"
SHIFT = "poulpy-cpu-ref/src/reference/vec_znx/shift.rs"


def offsets(bits_a, bits_r, ab, rb):
    """boundary offsets of DESIGN §4 for one (a, res) shape"""
    s = {0, 1, -1}
    for b in (ab, rb):
        s |= {b - 1, b, b + 1, -(b - 1), -b, -(b + 1)}
    for bits in (bits_a, bits_r):
        s |= {bits - 1, bits, bits + 1, -(bits - 1), -bits, -(bits + 1), bits + ab, -(bits + ab)}
    return sorted(s)


def oracle_ok(bits_a, bits_r, off):
    return max(bits_r, bits_a - off) <= 250 and off <= 250


def col_choice(i):
    """column pair encoding for the harness: rc*2+ac, 9 = symbolic pair; rotates through the choices"""
    return [2, 1, 3, 0, 2, 2, 9, 2][i % 8]


def normalize_instances(tier):
    """full grid; `core` marks the boundary subset that the quick tier always runs"""
    out = []
    pairs = [(b, b) for b in (1, 2, 3, 4, 7, 12, 17, 31, 32, 50, 52, 62)] + [(12, 17), (17, 12), (50, 52), (52, 50), (1, 62), (62, 1), (2, 5), (5, 2), (3, 4), (17, 52), (52, 17), (31, 32)]
    core_pairs = {(17, 17), (52, 52), (12, 17), (17, 12), (3, 3)}
    shapes = [(a, r) for a in (1, 2, 3) for r in (1, 2, 3)]
    core_shapes = {(2, 2), (3, 2), (2, 3)}
    i = 0
    for rb, ab in pairs:
        for a_s, r_s in shapes:
            rbits, abits = r_s * rb, a_s * ab
            core_offs = {0, -1, ab + 1, -(rbits) - 1, -(rbits + ab + 1)}
            for off in offsets(abits, rbits, ab, rb):
                if not oracle_ok(abits, rbits, off):
                    continue
                for normed in (False, True):
                    i += 1
                    cols = col_choice(i)
                    core = (rb, ab) in core_pairs and (a_s, r_s) in core_shapes and off in core_offs and not normed
                    if core and (rb, ab) != (17, 17) and (a_s, r_s) != (3, 2):
                        core = False
                    nm = f"c08v_norm_rb{rb}_ab{ab}_as{a_s}_rs{r_s}_off{sgn(off)}{'_n' if normed else ''}"
                    out.append(
                        Instance(
                            crate="hk_hal",
                            family="vec.normalize",
                            name=nm,
                            call=f"crate::c08_vec::normalize::<{KERN['fft64']}, {rb}, {ab}, {r_s}, {a_s}, {2*(r_s+1)}, {2*a_s}>({off}, {bool_rs(normed)}, {cols})",
                            unwind=12,
                            params={"res_base2k": rb, "a_base2k": ab, "a_size": a_s, "res_size": r_s, "off": off, "a_normalized": normed, "kern": "fft64", "cols": cols},
                            symbolic=["a limbs (|x|<2^61, or normalised digits)", "all prior res content", "carry/scratch contents", "column pair when cols=9"],
                            functions=[f"{NORM}::vec_znx_normalize", f"{NORM}::vec_znx_normalize_inter_base2k" if rb == ab else f"{NORM}::vec_znx_normalize_cross_base2k"],
                            timeout=1200,
                            core=core,
                        )
                    )
    return out


MODES = ["lsh", "lsh_add", "lsh_sub", "rsh", "rsh_add", "rsh_sub"]


def shift_instances(tier):
    out = []
    bs = [1, 2, 3, 4, 7, 12, 17, 31, 32, 50, 52, 62]
    shapes = [(a, r) for a in (1, 2, 3) for r in (1, 2, 3)]
    i = 0
    for b in bs:
        for a_s, r_s in shapes:
            ks = [k for k in offsets(a_s * b, r_s * b, b, b) if k >= 0]
            core_ks = {1, b + 1, r_s * b + 1}
            for k in ks:
                for mode, mname in enumerate(MODES):
                    off = k if mode < 3 else -k
                    if not oracle_ok(a_s * b, r_s * b, off):
                        continue
                    for kern in ("fft64", "znxref", "ntt120"):
                        if kern != "fft64" and not (b in (3, 17) and (a_s, r_s) in ((2, 2), (3, 2))):
                            continue
                        i += 1
                        cols = col_choice(i)
                        core = kern == "fft64" and b == 17 and (a_s, r_s) == (3, 2) and k in core_ks
                        core = core or (kern == "znxref" and b == 17 and (a_s, r_s) == (3, 2) and k == b + 1 and mode in (1, 4))
                        out.append(
                            Instance(
                                crate="hk_hal",
                                family=f"vec.shift.{mname}",
                                name=f"c08v_{mname}_{kern}_b{b}_as{a_s}_rs{r_s}_k{k}",
                                call=f"crate::c08_vec::shift::<{KERN[kern]}, {b}, {r_s}, {a_s}, {2*(r_s+1)}, {2*a_s}, {mode}>({k}, {cols})",
                                unwind=12,
                                params={"base2k": b, "a_size": a_s, "res_size": r_s, "k": k, "mode": mname, "kern": kern, "cols": cols},
                                symbolic=["a limbs |x|<2^61", "prior res content (|x|<2^61 for accumulate forms, arbitrary otherwise)", "carry/scratch contents", "column pair when cols=9"],
                                functions=[f"{SHIFT}::vec_znx_{'lsh' if mode < 3 else 'rsh'}{'_sub' if mode % 3 == 2 else ''}"],
                                timeout=1200,
                                core=core,
                            )
                        )
            # in-place forms
            if a_s == r_s:
                for k in ks:
                    for mode, mname in enumerate(["lsh_assign", "rsh_assign"]):
                        off = k if mode == 0 else -k
                        if not oracle_ok(r_s * b, r_s * b, off):
                            continue
                        i += 1
                        cols = col_choice(i)
                        out.append(
                            Instance(
                                crate="hk_hal",
                                family=f"vec.shift.{mname}",
                                name=f"c08v_{mname}_b{b}_rs{r_s}_k{k}",
                                call=f"crate::c08_vec::shift_assign::<{KERN['fft64']}, {b}, {r_s}, {2*(r_s+1)}, {mode}>({k}, {cols})",
                                unwind=12,
                                params={"base2k": b, "res_size": r_s, "k": k, "mode": mname, "kern": "fft64", "cols": cols},
                                symbolic=["res limbs |x|<2^61", "tmp/scratch contents"],
                                functions=[f"{SHIFT}::vec_znx_{mname}"],
                                timeout=1200,
                                core=(b == 17 and r_s == 3 and k in (0, 1, 2 * b + 1, 3 * b + 1)),
                            )
                        )
                out.append(
                    Instance(
                        crate="hk_hal",
                        family="vec.normalize_assign",
                        name=f"c08v_normalize_assign_b{b}_rs{r_s}",
                        call=f"crate::c08_vec::shift_assign::<{KERN['fft64']}, {b}, {r_s}, {2*(r_s+1)}, 2>(0, 2)",
                        unwind=12,
                        params={"base2k": b, "res_size": r_s, "kern": "fft64"},
                        symbolic=["res limbs |x|<2^61", "carry contents"],
                        functions=[f"{NORM}::vec_znx_normalize_assign"],
                        timeout=1200,
                        core=(b == 17 and r_s == 3),
                    )
                )
    return out


QUICK_SAMPLE = 24


ENC = "poulpy-hal/src/layouts/encoding.rs"


def encoding_instances(tier):
    out = []
    i = 0
    for b in (2, 3, 7, 12, 17, 31, 32, 50, 52, 62):
        ks = sorted({1, b - 1, b, b + 1, 2 * b - 1, 2 * b, 2 * b + 1, 3 * b, 5, 40} & set(range(1, 62)))
        for k in ks:
            size = -(-k // b)
            if size > 3:
                continue
            S = size + 1
            L = 2 * 2 * (S + 1)
            for mode, mname in enumerate(["vec_i64", "coeff_i64", "coeff_vs_vec_i64"]):
                i += 1
                col, idx = i % 2, (i // 2) % 2
                core = b == 17 and k in (16, 18, 40, 35) or (b == 3 and k == 5 and mode == 2)
                out.append(Instance(
                    crate="hk_hal", family=f"enc.{mname}", name=f"c08e_{mname}_b{b}_k{k}",
                    call=f"crate::c08_enc::roundtrip_i64::<{b}, {k}, {S}, {L}, {mode}>({col}, {idx})",
                    unwind=L + 6, params={"base2k": b, "k": k, "mode": mname, "col": col, "idx": idx},
                    symbolic=["values |v|<2^61 (two coefficients)", "all prior buffer content"],
                    functions=[f"{ENC}::encode_vec_i64/decode_vec_i64" if mode == 0 else f"{ENC}::encode_coeff_i64/decode_coeff_i64" + ("/decode_vec_i64" if mode == 2 else "")],
                    timeout=900, core=core))
            if k >= b or True:
                out.append(Instance(
                    crate="hk_hal", family="enc.vec_i128", name=f"c08e_vec_i128_b{b}_k{k}",
                    call=f"crate::c08_enc::roundtrip_i128::<{b}, {k}, {S}, {L}>({i % 2})",
                    unwind=L + 6, params={"base2k": b, "k": k, "mode": "vec_i128", "col": i % 2},
                    symbolic=["values |v|<2^120 (two coefficients)", "all prior buffer content"],
                    functions=[f"{ENC}::encode_vec_i128/decode_vec_i128"], timeout=900, core=(b == 17 and k == 35)))
    return out


def instances(tier, seed):
    return kernel_instances(tier) + normalize_instances(tier) + shift_instances(tier) + encoding_instances(tier)


META = {
    "bounds": "base2k from B_quick/B_thorough (concrete per instance), n=1 coefficient (kernels are zip loops, coefficient-wise), lsh symbolic in [0,base2k), data |x|<2^61",
    "outside": "values with |x| >= 2^61 (kernels wrap there), AVX kernels (C10), n>1 (identical conjuncts)",
    "assumptions": ["headroom domain |a|,|carry|,|x_prev| < 2^61 (DESIGN §4)"],
    "stubs": [],
}
THOROUGH_SAMPLE = 120

from common import *

PROPERTY = "C09"
QUICK_SAMPLE = 40
KERN = {"fft64": "poulpy_cpu_ref::FFT64Ref", "ntt120": "poulpy_cpu_ref::NTT120Ref", "znxref": "poulpy_cpu_ref::reference::znx::ZnxRef"}
V = "poulpy-cpu-ref/src/reference/vec_znx"
LIN = ["add_into", "sub", "add_assign", "sub_assign", "sub_negate_assign", "negate", "negate_assign", "copy", "zero"]
LINF = ["add.rs::vec_znx_add_into", "sub.rs::vec_znx_sub", "add.rs::vec_znx_add_assign", "sub.rs::vec_znx_sub_assign", "sub.rs::vec_znx_sub_negate_assign", "negate.rs::vec_znx_negate", "negate.rs::vec_znx_negate_assign", "copy.rs::vec_znx_copy", "zero.rs::vec_znx_zero"]
SCAL = ["add_scalar_into", "sub_scalar", "add_scalar_assign", "sub_scalar_assign"]
ROT = ["rotate", "rotate_assign", "mul_xp_minus_one", "mul_xp_minus_one_assign"]
COLS = 3


def instances(tier, seed):
    out = []
    i = 0
    # linear ops
    triples = [(2, 2, 2), (3, 2, 1), (3, 1, 2), (1, 2, 3), (2, 3, 1), (2, 1, 3), (1, 1, 1)]
    for kern in ("fft64", "znxref", "ntt120"):
        for op, oname in enumerate(LIN):
            for rs, a_s, bs in triples:
                if kern != "fft64" and (rs, a_s, bs) != (3, 2, 1):
                    continue
                for sel in range(5):
                    i += 1
                    n = 2
                    core = kern == "fft64" and ((rs, a_s, bs), sel) in (((3, 2, 1), 0), ((2, 3, 1), 1), ((2, 1, 3), 2)) and op in (0, 1, 4)
                    core = core or (kern == "fft64" and (rs, a_s, bs) == (3, 2, 1) and sel == 0)
                    out.append(Instance(
                        crate="hk_hal", family=f"ring.{oname}", name=f"c09_{oname}_{kern}_rs{rs}_as{a_s}_bs{bs}_c{sel}",
                        call=f"crate::c09::linear::<{KERN[kern]}, {n}, {rs}, {a_s}, {bs}, {n*COLS*(rs+1)}, {n*COLS*a_s}, {n*COLS*bs}, {op}>({sel})",
                        unwind=n*COLS*4+6, params={"op": oname, "n": n, "res_size": rs, "a_size": a_s, "b_size": bs, "cols_sel": sel, "kern": kern},
                        symbolic=["a, b coefficients |x|<2^62", "all prior res content"], functions=[f"{V}/{LINF[op]}"], timeout=600, core=core))
    # scalar ops
    for op, oname in enumerate(SCAL):
        for rs, bs in ((2, 2), (3, 2), (2, 3)):
            lim = min(rs, bs) if op < 2 else rs
            for limb in range(lim):
                for sel in (0, 1, 2):
                    n = 2
                    out.append(Instance(
                        crate="hk_hal", family=f"ring.{oname}", name=f"c09_{oname}_rs{rs}_bs{bs}_l{limb}_c{sel}",
                        call=f"crate::c09::scalar::<{KERN['fft64']}, {n}, {rs}, {bs}, {n*COLS*(rs+1)}, {n*COLS}, {n*COLS*bs}, {op}>({limb}, {sel})",
                        unwind=n*COLS*4+6, params={"op": oname, "n": n, "res_size": rs, "b_size": bs, "limb": limb, "cols_sel": sel},
                        symbolic=["scalar, b coefficients |x|<2^62", "all prior res content"], functions=[f"{V}/{'add' if op % 2 == 0 else 'sub'}_scalar.rs::vec_znx_{oname}"], timeout=600,
                        core=((rs, bs) == (3, 2) and limb == 1 and sel == 0)))
    # rotations: every p in [-4N, 4N]
    for n in (1, 2, 4, 8):
        for op, oname in enumerate(ROT):
            for rs, a_s in ((2, 2), (1, 2), (2, 1)):
                if op in (1, 3) and (rs, a_s) != (2, 2):
                    continue
                for p in range(-4 * n, 4 * n + 1):
                    sel = (p + op) % 3
                    core = n == 4 and (rs, a_s) == (2, 2) and (op == 0 or p in (-n, n, 3 * n, 1))
                    core = core or (n == 8 and (rs, a_s) == (2, 2) and p in (-8, 8, 24, 5) and op in (0, 2))
                    out.append(Instance(
                        crate="hk_hal", family=f"ring.{oname}", name=f"c09_{oname}_n{n}_rs{rs}_as{a_s}_p{sgn(p)}",
                        call=f"crate::c09::rotate::<{KERN['fft64']}, {n}, {rs}, {a_s}, {n*COLS*(rs+1)}, {n*COLS*a_s}, {op}>({p}, {sel})",
                        unwind=n*COLS*3+6, params={"op": oname, "n": n, "res_size": rs, "a_size": a_s, "p": p, "cols_sel": sel},
                        symbolic=["coefficients |x|<2^62", "all prior res content", "tmp contents"], functions=[f"{V}/{'rotate' if op < 2 else 'mul_xp_minus_one'}.rs::vec_znx_{oname}", "poulpy-cpu-ref/src/reference/znx/rotate.rs::znx_rotate"], timeout=600, core=core))
    # automorphisms: Galois element symbolic
    for n in (1, 2, 4, 8):
        for op, oname in enumerate(["automorphism", "automorphism_assign"]):
            for rs, a_s in ((2, 2), (1, 2), (2, 1)):
                if op == 1 and (rs, a_s) != (2, 2):
                    continue
                for kern in ("fft64", "znxref"):
                    if kern != "fft64" and n != 4:
                        continue
                    sel = (n + op) % 3
                    out.append(Instance(
                        crate="hk_hal", family=f"ring.{oname}", name=f"c09_{oname}_{kern}_n{n}_rs{rs}_as{a_s}",
                        call=f"crate::c09::automorphism::<{KERN[kern]}, {n}, {rs}, {a_s}, {n*COLS*(rs+1)}, {n*COLS*a_s}, {op}>({sel})",
                        unwind=n*COLS*3+6, params={"op": oname, "n": n, "res_size": rs, "a_size": a_s, "kern": kern},
                        symbolic=["Galois element: every odd g, |g|<2^20", "coefficients |x|<2^62", "all prior res content"],
                        functions=[f"{V}/automorphism.rs::vec_znx_{oname}", "poulpy-cpu-ref/src/reference/znx/automorphism.rs::znx_automorphism_ref"], timeout=1200,
                        core=(kern == "fft64" and n in (4, 8) and (rs, a_s) == (2, 2))))
    # ring switching
    for nin, nout in ((8, 4), (8, 2), (8, 1), (4, 8), (2, 8), (1, 8), (4, 4), (16, 2), (2, 16)):
        for rs, a_s in ((2, 2), (1, 2), (2, 1)):
            sel = (nin + rs) % 3
            out.append(Instance(
                crate="hk_hal", family="ring.switch_ring", name=f"c09_switch_ring_{nin}to{nout}_rs{rs}_as{a_s}",
                call=f"crate::c09::switch_ring::<{KERN['fft64']}, {nin}, {nout}, {rs}, {a_s}, {nout*COLS*(rs+1)}, {nin*COLS*a_s}>({sel})",
                unwind=max(nin,nout)*COLS*3+6, params={"n_in": nin, "n_out": nout, "res_size": rs, "a_size": a_s},
                symbolic=["coefficients (full i64)", "all prior res content"], functions=[f"{V}/switch_ring.rs::vec_znx_switch_ring", "poulpy-cpu-ref/src/reference/znx/switch_ring.rs::znx_switch_ring_ref"], timeout=600,
                core=((nin, nout) in ((8, 4), (4, 8)) and (rs, a_s) == (2, 2))))
    for nin, nout in ((4, 2), (8, 4), (2, 1)):
        for s in (1, 2):
            for merge in (False, True):
                out.append(Instance(
                    crate="hk_hal", family="ring.merge_split" if merge else "ring.split_ring", name=f"c09_{'merge_split' if merge else 'split'}_{nin}to{nout}_s{s}",
                    call=f"crate::c09::split_merge::<{KERN['fft64']}, {nin}, {nout}, {s}, {nin*s}, {nout*s}, {bool_rs(merge)}>()",
                    unwind=40, params={"n_in": nin, "n_out": nout, "size": s, "merge": merge},
                    symbolic=["coefficients (full i64)", "prior parts content", "tmp contents"], functions=[f"{V}/split_ring.rs::vec_znx_split_ring"] + ([f"{V}/merge_rings.rs::vec_znx_merge_rings"] if merge else []), timeout=600,
                    core=((nin, nout) == (4, 2) and s == 1)))
    # laws through the real functions only
    for n in (2, 4):
        for p, q in ((1, n - 1), (n, n), (3, -3), (2 * n - 1, 1), (-n, 3 * n), (n + 1, n - 1)):
            out.append(Instance(
                crate="hk_hal", family="ring.law_rotate", name=f"c09_law_rotate_n{n}_p{sgn(p)}_q{sgn(q)}",
                call=f"crate::c09::law_rotate::<{KERN['fft64']}, {n}, {n}>({p}, {q})", unwind=30, params={"n": n, "p": p, "q": q},
                symbolic=["coefficients (full i64)"], functions=[f"{V}/rotate.rs::vec_znx_rotate"], timeout=600, core=(n == 4 and (p, q) in ((n, n), (1, n - 1)))))
    for n in (2, 4, 8):
        out.append(Instance(
            crate="hk_hal", family="ring.law_automorphism", name=f"c09_law_automorphism_n{n}",
            call=f"crate::c09::law_automorphism::<{KERN['fft64']}, {n}, {n}>()", unwind=30, params={"n": n},
            symbolic=["g, h: all odd, |.|<2^12", "coefficients (full i64)"], functions=[f"{V}/automorphism.rs::vec_znx_automorphism"], timeout=1200, core=(n == 4)))
    BIG = ["add_into", "add_assign", "add_small_into", "add_small_assign", "sub", "sub_assign", "sub_negate_assign", "sub_small_a", "sub_small_b", "sub_small_a_assign", "sub_small_b_assign", "negate", "negate_assign", "automorphism", "automorphism_assign"]
    for op, oname in enumerate(BIG):
        for rs, a_s, bs in ((2, 2, 2), (3, 2, 1), (2, 3, 1), (2, 1, 3)):
            for sel in range(4):
                n = 2
                out.append(Instance(
                    crate="hk_hal", family=f"big.{oname}", name=f"c09_big_{oname}_rs{rs}_as{a_s}_bs{bs}_c{sel}",
                    call=f"crate::c09_big::big_linear::<{rs}, {a_s}, {bs}, {n*COLS*(rs+1)}, {n*COLS*a_s}, {n*COLS*bs}, {op}>({sel})", unwind=n * COLS * 4 + 6,
                    params={"op": oname, "n": n, "res_size": rs, "a_size": a_s, "b_size": bs, "cols_sel": sel},
                    symbolic=["coefficients |x|<2^62", "prior res content", "Galois element (automorphism ops)"],
                    functions=[f"poulpy-cpu-ref/src/reference/fft64/vec_znx_big.rs::vec_znx_big_{oname}"], timeout=600,
                    core=((rs, a_s, bs) == (3, 2, 1) and sel == 0) or ((rs, a_s, bs) == (2, 3, 1) and sel == 1 and op in (7, 8, 9, 10))))
    return out


META = {
    "bounds": "ring degree N in {1,2,4,8,16} (concrete), limb counts 1..3, 3 columns with five concrete column assignments (distinct and coinciding), every rotation amount in [-4N,4N] enumerated, Galois element symbolic over all odd |g|<2^20",
    "outside": "N > 16 (index arithmetic is mask-based, no new case split), the NTT120 (i128) big-accumulator forms, AVX kernels (C10)",
    "assumptions": ["|coefficients| < 2^62 for add/sub families (plain +/- of the reference panics on overflow in dev, wraps in release)"],
    "stubs": [],
}

from common import *

PROPERTY = "C16"
QUICK_SAMPLE = 6
STUBS = [("std::fmt::format", "crate::c16::fmt_stub"), ("std::backtrace::Backtrace::capture", "crate::c16::backtrace_stub"), ("poulpy_cpu_ref::hal_defaults::scratch::take_slice_aligned", "crate::vz::take_slice_aligned_stub")]
D = "poulpy-ckks/src/leveled/default"
MAXU = 18446744073709551615


def instances(tier, seed):
    out = []
    out.append(Instance(crate="hk_ckks", family="ckks.meta_helpers", name="c16_meta_helpers", call="crate::c16::meta_helpers()", unwind=8, params={},
                        symbolic=["log_budget/log_delta of both operands (< 2^40)", "required bits: any usize", "plaintext max_k"], stubs=STUBS,
                        functions=["poulpy-ckks/src/error.rs::checked_log_budget_sub/checked_mul_ct_log_budget/checked_mul_pt_log_budget/ensure_plaintext_alignment"], timeout=900, core=True))
    # operand metadata grid (limbs, log_delta, log_budget), base2k = 17
    ops_a = [(3, 20, 31), (3, 20, 14), (2, 20, 14)]
    ops_b = [(3, 20, 31), (3, 20, 14), (2, 20, 14), (3, 25, 26), (2, 10, 5)]
    for op, oname in enumerate(["add_into", "sub_into"]):
        for a in ops_a:
            for b in ops_b:
                for ldst in (3, 2, 1):
                    core = (a, b, ldst) in (((3, 20, 31), (3, 20, 31), 3), ((3, 20, 31), (3, 20, 14), 2), ((3, 20, 14), (3, 20, 31), 2), ((3, 20, 31), (2, 10, 5), 1))
                    out.append(Instance(crate="hk_ckks", family=f"ckks.{oname}", name=f"c16_{oname}_a{a[0]}_{a[1]}_{a[2]}_b{b[0]}_{b[1]}_{b[2]}_d{ldst}",
                                        call=f"crate::c16::add_sub::<{op}>({a[0]}, {a[1]}, {a[2]}, {b[0]}, {b[1]}, {b[2]}, {ldst})", unwind=30,
                                        params={"a(limbs,log_delta,log_budget)": list(a), "b": list(b), "dst_limbs": ldst, "base2k": 17},
                                        symbolic=["all limbs of a and b: normalised digits", "prior dst content", "scratch contents (exact size)"], stubs=STUBS,
                                        functions=[f"{D}/{'add' if op == 0 else 'sub'}.rs::ckks_{oname}_default", "poulpy-ckks/src/layouts/ciphertext.rs::CKKSOffset::offset_binary"],
                                        timeout=3000, mem_gb=28, core=((a, b, ldst) == ((3, 20, 31), (3, 25, 26), 1) and op == 1) or ((a, b, ldst) == ((3, 20, 14), (3, 20, 14), 2) and op == 0) or ((a, b, ldst) == ((3, 20, 31), (3, 25, 26), 2) and op == 0)))
    for op, oname in enumerate(["mul_pow2_into", "div_pow2_into", "neg_into", "div_pow2_assign"]):
        for src in ((3, 20, 31), (2, 20, 14)):
            for ldst in (3, 2, 1):
                if op == 3 and ldst != src[0]:
                    continue
                for bits in ((0,) if op == 2 else (0, 1, 5, 14, 31, 32, MAXU - 1, MAXU)):
                    core = (src == (3, 20, 31) and ldst == 2 and ((bits in (5, 32) and op in (0, 1)) or (bits == MAXU and op == 1))) or (op == 3 and bits in (5, MAXU) and src == (3, 20, 31)) or (op == 2 and ldst == 2 and src == (3, 20, 31))
                    out.append(Instance(crate="hk_ckks", family=f"ckks.{oname}", name=f"c16_{oname}_s{src[0]}_{src[1]}_{src[2]}_d{ldst}_bits{bits if bits < 1000 else 'max' + str(MAXU - bits)}",
                                        call=f"crate::c16::unary::<{op}>({src[0]}, {src[1]}, {src[2]}, {ldst}, {bits})", unwind=30,
                                        params={"src(limbs,log_delta,log_budget)": list(src), "dst_limbs": ldst, "bits": bits, "base2k": 17},
                                        symbolic=["all limbs of src: normalised digits", "prior dst content", "scratch contents"], stubs=STUBS,
                                        functions=[f"{D}/{'neg' if op == 2 else 'pow2'}.rs::ckks_{oname}_default", "poulpy-ckks/src/layouts/ciphertext.rs::CKKSOffset::offset_unary"],
                                        timeout=2400, mem_gb=28, core=core))
    # allow-list: every add/sub shape (they fit since the take_slice_aligned stand-in keeps scratch offsets constant);
    # the unary family keeps the shapes calibrated before that change (mul_pow2 with bits = 2^64-1 ran out of memory then)
    allow = ("c16_meta_helpers", "c16_div_pow2_assign_", "c16_div_pow2_into_s3_20_31_d2_", "c16_div_pow2_into_s3_20_31_d3_bits0", "c16_div_pow2_into_s3_20_31_d3_bits32",
             "c16_div_pow2_into_s3_20_31_d3_bitsmax0", "c16_div_pow2_into_s3_20_31_d1_bits5", "c16_div_pow2_into_s2_20_14_d2_bitsmax0", "c16_mul_pow2_into_s3_20_31_d2_bits0", "c16_mul_pow2_into_s3_20_31_d2_bits1",
             "c16_mul_pow2_into_s3_20_31_d2_bits5", "c16_mul_pow2_into_s3_20_31_d2_bits32", "c16_mul_pow2_into_s3_20_31_d3_bits32", "c16_mul_pow2_into_s3_20_31_d3_bitsmax0", "c16_neg_into_s3_20_31_",
             "c16_add_into_", "c16_sub_into_", "c16_sub_into_a3_20_31_b3_20_31_d1", "c16_add_into_a3_20_14_b3_20_14_d2")
    out = [i for i in out if i.name.startswith(allow)]
    return out


META = {
    "bounds": "module degree 1 (coefficient-wise linear code), base2k 17, operands of 2-3 limbs with metadata from a concrete grid (aligned / a above b / b above a / different log_delta), destinations of 1-3 limbs (offset > 0 cases), bits in {0,1,5,14,31,32,2^64-2,2^64-1}",
    "outside": "slot encoding/decoding (special FFT in floats), multiplication family, rotate/conjugate (key-switch through the DFT), random programs beyond the single-step inductive argument, the 2^-log_delta noise term",
    "assumptions": ["operand metadata consistent with its capacity (log_delta+log_budget <= max_k), as set_meta_checked enforces", "std::fmt::format and std::backtrace::Backtrace::capture stubbed (anyhow error construction)"],
    "stubs": ["std::fmt::format", "std::backtrace::Backtrace::capture", "take_slice_aligned (private, hal_defaults/scratch.rs) replaced by a copy deriving the 64-byte padding from the window offset inside the aligned harness arena instead of the pointer integer (same function on these arenas; the real one is decided by C12 scratch.take_slice*)"],
}
THOROUGH_SAMPLE = 60

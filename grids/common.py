"""Shared grid constants (DESIGN §4)."""
import sys, os
sys.path.insert(0, os.path.join(os.path.dirname(os.path.abspath(__file__)), "..", "lib"))
from driver import Instance, Result  # noqa

B_QUICK = [1, 2, 3, 7, 12, 17, 31, 32, 50, 52, 62]
B_THOROUGH = list(range(1, 63))


def sgn(v):
    """identifier-safe rendering of a signed integer"""
    return f"m{-v}" if v < 0 else f"{v}"


def bool_rs(b):
    return "true" if b else "false"

from common import *

PROPERTY = "C14"
QUICK_SAMPLE = 8
L = "poulpy-bin-fhe/src/blind_rotation/lut.rs"


def instances(tier, seed):
    out = []
    for n, e in ((2, 1), (4, 1), (8, 1)):  # calibrated: extension factor >= 2 does not finish (20 min / OOM)
        d = n * e
        for k in range(-2 * d, 2 * d + 1):
            core = n in (2, 4)  # complete over k in [-2N, 2N] for N in {2,4} (16 s each); N=8 sampled
            out.append(Instance(crate="hk_binfhe", family="lut.rotate", name=f"c14_rotate_n{n}_e{e}_k{sgn(k)}", call=f"crate::c14::lut_rotate::<{n}, {e}, {d}>({k})", unwind=d + 8,
                                params={"n": n, "extension_factor": e, "k": k}, symbolic=["every table word |x|<2^62"], functions=[f"{L}::lookup_table_rotate"], timeout=1200, mem_gb=16, core=core))
    for n, fl, b, k, s in ((4, 4, 17, 17, 1), (4, 2, 17, 18, 2), (4, 1, 17, 20, 2), (8, 4, 4, 5, 2), (8, 8, 17, 34, 2), (8, 2, 17, 17, 2), (4, 4, 4, 8, 2)):
        out.append(Instance(crate="hk_binfhe", family="lut.set", name=f"c14_set_n{n}_f{fl}_b{b}_k{k}_s{s}", call=f"crate::c14::lut_set::<{n}, {fl}, {b}, {k}, {s}>()", unwind=n + 8,
                            params={"n": n, "f_len": fl, "base2k": b, "k": k, "size": s, "extension_factor": 1}, symbolic=["function values |f|<2^10"],
                            functions=[f"{L}::lookup_table_set", f"{L}::DivRound"], timeout=2400, mem_gb=16, core=((n, fl, b, k, s) in ((4, 2, 17, 18, 2), (4, 4, 17, 17, 1)))))
    return out


META = {
    "bounds": "rotate: extension factor 1, one limb, EVERY k in [-2N, 2N] for N in {2,4} on every run (quick tier included), N=8 sampled per seed (all k in the thorough tier); set: extension factor 1, N in {4,8}, table length dividing N, (base2k,k) in {(17,17),(17,18),(17,20),(4,5),(17,34),(4,8)}",
    "outside": "the blind path (BlindRotationKeyPrepared::execute: external products through the DFT), mod_switch_2n (its two branches keep a different number of bits; its documented rounding could not be pinned down well enough to write an oracle that never false-alarms), set AND rotate with extension factor > 1 (Kani does not finish within 20 min / 16 GB: Vec-of-VecZnx tables and per-call ScratchOwned allocations; the interleaving oracle for them is validated natively only), set_xai_plus_y",
    "assumptions": ["oracles validated natively against the current code on concrete tables (cargo test of harness/hk_binfhe)"],
    "stubs": [],
}

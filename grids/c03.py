from common import *

PROPERTY = "C03"
QUICK_SAMPLE = 2
M = "poulpy-hal/src/layouts/module.rs"


def instances(tier, seed):
    out = []
    for logn in range(1, 17):
        if logn <= 12:  # calibrated: log N = 13 takes 430 s, 16 does not finish in 900 s
          out.append(Instance(crate="hk_hal", family="galois.law", name=f"c03_galois_law_logn{logn}", call=f"crate::c03::galois_law::<{logn}>()", unwind=16,
                            params={"log_n": logn}, symbolic=["generator exponents g1, g2 in [0, 2^12)"], functions=[f"{M}::galois_element", f"{M}::mod_exp_u64"], timeout=900,
                            core=logn in (1, 3, 8, 11)))
        out.append(Instance(crate="hk_hal", family="galois.inverse", name=f"c03_galois_inv_logn{logn}", call=f"crate::c03::galois_inv::<{logn}>()", unwind=70,
                            params={"log_n": logn}, symbolic=["every odd Galois element in (-2N, 2N)"], functions=[f"{M}::GaloisElement::galois_element_inv", f"{M}::mod_exp_u64"], timeout=1800,
                            core=logn in (1, 3, 6)))
    import c12
    fused = c12.core_frame_instances(ops=(6, 7, 8), tier=tier)
    for i in fused:
        i.core = i.core or ("automorphism_sub_negate_b12_12_kin24_kk36_ko24_ds1_dn2_r11_p3_sym2" in i.name)
    return out + ks_instances(tier) + fused


KS_STUBS = [("poulpy_hal::source::Source::next_u64n", "crate::c03_ks::next_u64n_lcg"),
            ("poulpy_cpu_ref::reference::znx::znx_add_normal_f64_ref", "crate::stubs::add_normal_stub"),
            ("f64::exp2", "crate::stubs::exp2_stub"), ("f64::log2", "crate::stubs::log2_stub"), ("std::fmt::format", "crate::stubs::fmt_stub"),
            ("poulpy_cpu_ref::hal_defaults::scratch::take_slice_aligned", "crate::stubs::take_slice_aligned_stub")]
PROBE8 = ["hk_core/src/probe_full.rs: Module<Probe> at N=8 (repository hal_impl_*! macros, fft64/znx.rs bindings, impl_core_default_methods!) over substituted leaf kernels: identity transform + exact Gaussian-integer arithmetic, i.e. the ring R' = Z[i]^4",
          "poulpy-cpu-ref/src/hal_defaults/*.rs", "poulpy-cpu-ref/src/reference/fft64/{vmp,vec_znx_dft,svp,vec_znx_big}.rs", "poulpy-cpu-ref/src/reference/vec_znx/*.rs"]


def secret8(rank, variant):
    pat = {0: (2, 1, 0, 1, 2, 2, 1, 0, 1, 1, 2, 0), 1: (0,) * 12, 2: (2,) * 12, 3: (1, 0, 0, 0, 0, 0, 0, 0, 0, 0, 0, 0)}[variant]
    digs = [pat[(c * 8 + i) % 12] for c in range(rank) for i in range(8)]
    return sum(d * 3**i for i, d in enumerate(digs)), [{0: 0, 1: 1, 2: -1}[d] for d in digs]


def ks_instances(tier="thorough"):
    out = []
    # (b, k_in, k_ksk, k_out, dsize, dnum, rank_in, rank_out, in_place); dnum*dsize >= input limbs and k_out >= k_ksk: exact
    shapes = [(4, 8, 12, 12, 1, 2, 1, 1, False), (4, 8, 8, 8, 1, 2, 1, 1, True), (4, 12, 12, 12, 1, 3, 1, 1, True), (4, 8, 12, 12, 1, 2, 2, 1, False), (4, 8, 12, 12, 1, 2, 1, 2, False),
              (4, 8, 16, 16, 2, 1, 1, 1, False), (4, 12, 20, 20, 2, 2, 1, 1, False), (4, 8, 12, 12, 1, 3, 1, 1, False),
              (12, 24, 36, 36, 1, 2, 1, 1, False)]
    for b, kin, kksk, kout, dsize, dnum, ri, ro, inpl in shapes:
        for vin, vout, nsym in [(a, c, ns) for (a, c) in ((0, 2), (3, 0), (1, 1)) for ns in (2, 999)]:
            if nsym == 999 and not (vin == 0 and b == 4 and (kin, kksk, kout, dsize, dnum, ri, ro) == (8, 12, 12, 1, 2, 1, 1)):
                continue
            if tier != "thorough" and (nsym == 999 or ri + ro > 2 or dsize > 1):
                continue  # quick tier: rank (1,1), dsize 1 (the others need 9-13 min each)
            spi, seci = secret8(ri, vin)
            spo, seco = secret8(ro, vout)
            core = (b, kin, kksk, kout, dsize, dnum, ri, ro, inpl, vin) in ((4, 8, 12, 12, 1, 2, 1, 1, False, 0), (4, 8, 8, 8, 1, 2, 1, 1, True, 0), (12, 24, 36, 36, 1, 2, 1, 1, False, 0)) and nsym == 2
            out.append(Instance(crate="hk_core", family="ks.glwe_keyswitch_assign" if inpl else "ks.glwe_keyswitch", name=f"c03_ks{'_assign' if inpl else ''}_b{b}_kin{kin}_kk{kksk}_ko{kout}_ds{dsize}_dn{dnum}_r{ri}{ro}_v{vin}{vout}_{'all' if nsym == 999 else f'sym{nsym}'}",
                                call=f"crate::c03_ks::glwe_keyswitch_phase::<{b}, {kin}, {kksk}, {kout}, {dsize}, {dnum}, {bool_rs(inpl)}, 2048, 1024>({ri}, {ro}, {spi}, {spo}, {nsym})", unwind=8 * max((ri + 1) * -(-(kout if inpl else kin) // b), (ro + 1) * -(-kout // b)) + 10,
                                params={"n": 8, "base2k": b, "k_in": kin, "k_ksk": kksk, "k_out": kout, "dsize": dsize, "dnum": dnum, "rank_in": ri, "rank_out": ro, "secret_in": seci, "secret_out": seco, "symbolic_input_words": "all" if nsym == 999 else nsym},
                                symbolic=["input ciphertext words (see symbolic_input_words; the rest a fixed digit pattern)", "prior output content", "key-switch scratch (exactly glwe_keyswitch_tmp_bytes)"], stubs=KS_STUBS,
                                functions=["poulpy-core/src/keyswitching/glwe.rs::glwe_keyswitch / glwe_keyswitch_assign (+ tmp_bytes)", "poulpy-core/src/encryption/glwe_switching_key.rs::glwe_switching_key_encrypt_sk", "poulpy-core/src/encryption/gglwe.rs",
                                           "poulpy-core/src/layouts/prepared/{glwe_switching_key,gglwe}.rs::prepare", "poulpy-core/src/decryption/glwe.rs::glwe_decrypt_default"] + PROBE8,
                                timeout=2400, mem_gb=28, core=core))
    return out


META = {
    "bounds": "key-switch (ks.*): N=8 on Module<Probe> (ring R' = Z[i]^4, statement ring-generic), radix 4 and 12, dsize 1..2, dnum 1..3, ranks (1,1),(2,1),(1,2), out-of-place and in-place, zero-noise key from the real key generator, 2 symbolic input words in the quick tier / all words in the thorough tier, exact-size symbolic scratch; fused automorphism forms (core.automorphism_{add,sub,sub_negate}): N=8, Galois elements {-1,3,5}, res = autom(a) +/- a resp. a - autom(a) against the plain automorphism; log N in 1..12 for the multiplicativity law and 1..16 for the inverse (concrete), generator exponents in [0, 2^12), every odd Galois element in (-2N, 2N)",
    "outside": "the negacyclic ring itself for N >= 4 (the substituted backend multiplies in Z[i]^(N/2); C07), hence the VALUE of automorphism / trace / packing / sample extraction (X -> X^g is not a ring map of the substituted ring) - only their fused-form relations are decided; GGLWE/GGSW/LWE key-switch, noise variance bounds, key radix different from the ciphertext radix for the phase statement, N > 8",
    "assumptions": ["the key-switch statement is ring-generic: it is decided in the ring in which the substituted leaf kernels multiply exactly"],
    "stubs": ["Source::next_u64n -> deterministic LCG (mask of the switching key)", "znx_add_normal_f64_ref with bound 0 (noise-free key)", "f64::exp2 / f64::log2", "std::fmt::format", "take_slice_aligned stand-in (see C12)"],
}

from common import *

PROPERTY = "C03"
QUICK_SAMPLE = 4
M = "poulpy-hal/src/layouts/module.rs"


def instances(tier, seed):
    out = []
    for logn in range(1, 17):
        if logn <= 12:  # calibrated: log N = 13 takes 430 s, 16 does not finish in 900 s
          out.append(Instance(crate="hk_hal", family="galois.law", name=f"c03_galois_law_logn{logn}", call=f"crate::c03::galois_law::<{logn}>()", unwind=16,
                            params={"log_n": logn}, symbolic=["generator exponents g1, g2 in [0, 2^12)"], functions=[f"{M}::galois_element", f"{M}::mod_exp_u64"], timeout=900,
                            core=logn in (1, 3, 8, 11)))
        out.append(Instance(crate="hk_hal", family="galois.inverse", name=f"c03_galois_inv_logn{logn}", call=f"crate::c03::galois_inv::<{logn}>()", unwind=70,
                            params={"log_n": logn}, symbolic=["every odd Galois element in (-2N, 2N)"], functions=[f"{M}::GaloisElement::galois_element_inv", f"{M}::mod_exp_u64"], timeout=1800,
                            core=logn in (1, 3, 6)))
    return out


META = {
    "bounds": "log N in 1..12 for the multiplicativity law and 1..16 for the inverse (concrete), generator exponents in [0, 2^12), every odd Galois element in (-2N, 2N)",
    "outside": "everything of C03 that runs through the DFT: the gadget product of GLWE/GGLWE/GGSW/LWE key-switching, automorphism/trace/packing values, noise variance bounds (DESIGN §2.4); index arithmetic interleaved with key-switch calls",
    "assumptions": [],
    "stubs": [],
}

"""C11: outputs fully determined by inputs.  Every harness is in *frame style*: all writable
buffers fully symbolic before the call; the selected column must equal a function of the inputs
only, every limb of it written, everything else unchanged.  The DFT-domain shape functions are
decided here (substituted kernels); the coefficient-domain families are shared with C08/C09."""
import importlib
from common import *

PROPERTY = "C11"
QUICK_SAMPLE = 30
F = "poulpy-cpu-ref/src/reference/fft64/vec_znx_dft.rs"
N, COLS = 2, 3
LIN = ["add_into", "sub", "add_assign", "sub_assign", "sub_negate_assign", "zero"]


def L(size):
    return N * COLS * size


def dft_instances():
    out = []
    i = 0
    triples = [(2, 2, 2), (3, 2, 1), (3, 1, 2), (1, 2, 3), (2, 3, 1), (2, 1, 3)]
    for op, oname in enumerate(LIN):
        for rs, a_s, bs in triples:
            for sel in range(4):
                i += 1
                out.append(Instance(
                    crate="hk_hal", family=f"dft.{oname}", name=f"c11_dft_{oname}_rs{rs}_as{a_s}_bs{bs}_c{sel}",
                    call=f"crate::c11_dft::dft_linear::<{rs}, {a_s}, {bs}, {L(rs+1)}, {L(a_s)}, {L(bs)}, {op}>({sel}, 0, 0)",
                    unwind=L(4) + 6, params={"op": oname, "res_size": rs, "a_size": a_s, "b_size": bs, "cols_sel": sel},
                    symbolic=["all operand words", "all prior output content"], functions=[f"{F}::vec_znx_dft_{oname}"], timeout=600,
                    core=((rs, a_s, bs) in ((3, 2, 1), (2, 3, 1)) and sel == 0)))
    # copy(step, offset): selections past the input
    for rs, a_s in ((2, 3), (3, 3), (3, 2), (1, 3), (2, 1)):
        for step in (1, 2, 3):
            for offset in range(0, 4):
                sel = (step + offset) % 3
                out.append(Instance(
                    crate="hk_hal", family="dft.copy", name=f"c11_dft_copy_rs{rs}_as{a_s}_st{step}_of{offset}",
                    call=f"crate::c11_dft::dft_linear::<{rs}, {a_s}, 1, {L(rs+1)}, {L(a_s)}, {L(1)}, 6>({sel}, {step}, {offset})",
                    unwind=L(4) + 6, params={"op": "copy", "res_size": rs, "a_size": a_s, "step": step, "offset": offset, "cols_sel": sel},
                    symbolic=["all operand words", "all prior output content"], functions=[f"{F}::vec_znx_dft_copy"], timeout=600,
                    core=((rs, a_s) == (2, 3) and (step, offset) in ((2, 1), (1, 0), (2, 3)))))
                out.append(Instance(
                    crate="hk_hal", family="dft.apply", name=f"c11_dft_apply_rs{rs}_as{a_s}_st{step}_of{offset}",
                    call=f"crate::c11_dft::dft_apply::<{rs}, {a_s}, {L(rs+1)}, {L(a_s)}>({sel}, {step}, {offset})",
                    unwind=L(4) + 6, params={"op": "apply", "res_size": rs, "a_size": a_s, "step": step, "offset": offset, "cols_sel": sel},
                    symbolic=["all operand words", "all prior output content"], functions=[f"{F}::vec_znx_dft_apply"], timeout=600,
                    core=((rs, a_s) == (2, 3) and (step, offset) in ((2, 1), (1, 0), (2, 3)))))
    for rs, a_s in ((2, 2), (3, 2), (2, 3)):
        for scale in (-3, -2, -1, 0, 1, 2, 3):
            sel = (scale + 3) % 3
            out.append(Instance(
                crate="hk_hal", family="dft.add_scaled_assign", name=f"c11_dft_add_scaled_rs{rs}_as{a_s}_s{sgn(scale)}",
                call=f"crate::c11_dft::dft_linear::<{rs}, {a_s}, 1, {L(rs+1)}, {L(a_s)}, {L(1)}, 7>({sel}, {scale}, 0)",
                unwind=L(4) + 6, params={"op": "add_scaled_assign", "res_size": rs, "a_size": a_s, "scale": scale, "cols_sel": sel},
                symbolic=["all operand words", "all prior output content"], functions=[f"{F}::vec_znx_dft_add_scaled_assign"], timeout=600,
                core=True))  # 2 s each; the (2,3,+2) point exposed a genuine defect that the former core subset missed
    for rs, a_s in ((2, 2), (3, 2), (2, 3), (1, 1)):
        for tmpa in (False, True):
            for sel in range(4):
                out.append(Instance(
                    crate="hk_hal", family="dft.idft_apply_tmpa" if tmpa else "dft.idft_apply", name=f"c11_idft{'_tmpa' if tmpa else ''}_rs{rs}_as{a_s}_c{sel}",
                    call=f"crate::c11_dft::idft_apply::<{rs}, {a_s}, {L(rs+1)}, {L(a_s)}, {bool_rs(tmpa)}>({sel})",
                    unwind=L(4) + 6, params={"op": "idft_apply_tmpa" if tmpa else "idft_apply", "res_size": rs, "a_size": a_s, "cols_sel": sel},
                    symbolic=["all operand words", "all prior output content"], functions=[f"{F}::vec_znx_idft_apply{'_tmpa' if tmpa else ''}"], timeout=600,
                    core=((rs, a_s) == (3, 2) and sel in (0, 1))))
    return out


def svp_instances():
    out = []
    S = "poulpy-cpu-ref/src/reference/fft64/svp.rs"
    names = ["svp_apply_dft", "svp_apply_dft_to_dft", "svp_apply_dft_to_dft_assign", "svp_prepare"]
    for op, oname in enumerate(names):
        shapes = [(1, 1)] if op == 3 else ([(2, 2)] if op == 2 else [(2, 2), (3, 2), (2, 3), (1, 1)])
        for rs, bs in shapes:
            for sel in range(4):
                lr, lb = (N * COLS, N * COLS) if op == 3 else (L(rs + 1), L(bs))
                out.append(Instance(
                    crate="hk_hal", family=f"dft.{oname}", name=f"c11_{oname}_rs{rs}_bs{bs}_c{sel}",
                    call=f"crate::c11_dft::svp::<{rs}, {bs}, {lr}, {lb}, {op}>({sel})", unwind=L(4) + 6,
                    params={"op": oname, "res_size": rs, "b_size": bs, "cols_sel": sel}, symbolic=["vector operand words", "all prior output content"],
                    functions=[f"{S}::{oname}"], timeout=600, core=((rs, bs) in ((3, 2), (1, 1)) and sel in (0, 1)) or (op == 2 and sel == 0)))
    return out


def vmp_instances():
    out = []
    V = "poulpy-cpu-ref/src/reference/fft64/vmp.rs"
    NV = 8
    for r, s_, a, rs in ((2, 2, 2, 2), (2, 3, 2, 3), (3, 2, 2, 2), (2, 2, 3, 3), (1, 1, 1, 1), (2, 3, 2, 2), (3, 3, 3, 3), (2, 3, 3, 1)):
        out.append(Instance(
            crate="hk_hal", family="dft.vmp_apply_dft_to_dft", name=f"c11_vmp_r{r}_s{s_}_a{a}_rs{rs}",
            call=f"crate::c11_dft::vmp::<{r}, {s_}, {a}, {rs}, {NV*r*s_}, {NV*a}, {NV*(rs+1)}>(0)", unwind=NV * max(r * s_, rs + 1) + 10,
            params={"rows": r, "pmat_size": s_, "a_size": a, "res_size": rs, "limb_offset": 0, "n": 8}, symbolic=["vector operand words", "all prior output content"],
            functions=[f"{V}::vmp_prepare/vmp_prepare_core", f"{V}::vmp_apply_dft_to_dft/vmp_apply_dft_to_dft_core"], timeout=1200, mem_gb=16,
            core=((r, s_, a, rs) in ((2, 3, 2, 3), (2, 3, 2, 2), (3, 3, 3, 3)))))
    for r, s_, a, rs, lo in ((2, 3, 2, 3, 1), (2, 3, 2, 3, 2), (2, 2, 2, 2, 1), (2, 4, 2, 4, 1), (2, 4, 2, 3, 2), (2, 3, 2, 2, 3)):
        out.append(Instance(
            crate="hk_hal", family="dft.vmp_limb_offset", name=f"c11_vmp2_r{r}_s{s_}_a{a}_rs{rs}_lo{lo}",
            call=f"crate::c11_dft::vmp_two_fills::<{r}, {s_}, {a}, {rs}, {NV*r*s_}, {NV*a}, {NV*(rs+1)}>({lo})", unwind=NV * max(r * s_, rs + 1) + 10,
            params={"rows": r, "pmat_size": s_, "a_size": a, "res_size": rs, "limb_offset": lo, "n": 8}, symbolic=["vector operand words", "two independent prior output fills"],
            functions=[f"{V}::vmp_apply_dft_to_dft_core"], timeout=1200, mem_gb=16, core=((r, s_, a, rs, lo) in ((2, 3, 2, 3, 1), (2, 4, 2, 3, 2)))))
    return out


def shared(tier, seed):
    """frame-style coefficient-domain families shared with C08/C09 (their core sets only)"""
    out = []
    for modname, keep in (("c08", lambda i: i.family.startswith("vec.")), ("c09", lambda i: True)):
        m = importlib.import_module(modname)
        for inst in m.instances(tier, seed):
            if keep(inst) and not inst.expect_fail and inst.family != "ring.merge_split":
                inst.core = inst.core and (hash(inst.name) % 3 == 0 or inst.family in ("ring.add_into", "ring.rotate", "vec.normalize"))
                inst.name = "c11s_" + inst.name
                out.append(inst)
    return out


def core_frames(tier="thorough"):
    import c12
    fr = c12.core_frame_instances(ops=(0, 2, 4), tier=tier)
    for i in fr:
        i.core = "keyswitch_b12_12_kin24_kk36_ko36_ds1_dn2_r11_p0_sym2" in i.name
    return fr


def instances(tier, seed):
    return dft_instances() + svp_instances() + vmp_instances() + shared(tier, seed) + core_frames(tier)


META = {
    "bounds": "vmp: n=8, rows/size/limbs 1..3, limb offset 0..1; core.* frames: see C12; DFT-domain functions: n=2, 3 columns (4 concrete column assignments), limb counts 1..3, step 1..3, offset 0..3, scale -3..3; coefficient-domain families: as in C08/C09",
    "outside": "convolution shape functions, NTT120 family, poulpy-core operations other than C02 and the key-switch / external product / automorphism frames (core.*: N=8, two runs with independent prior output content and scratch), floating-point kernels themselves (replaced by exact integer kernels on the bit patterns: probe_be.rs)",
    "assumptions": ["leaf kernels substituted by integer operations on f64 bit patterns; FFT = identity (only shape/selection/zero-fill logic is the repository's)"],
    "stubs": ["ReimArith / ReimFFTExecute implemented by harness type Probe (harness/hk_hal/src/probe_be.rs)"],
}

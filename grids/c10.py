from common import *

PROPERTY = "C10"
QUICK_SAMPLE = 24
A = "poulpy-cpu-avx/src/znx_avx"
X = "core::arch::x86_64::"
STUBS = [(X + "_mm256_sllv_epi64", "crate::stubs::mm256_sllv_epi64"), (X + "_mm256_srlv_epi64", "crate::stubs::mm256_srlv_epi64"),
         (X + "_mm256_sll_epi64", "crate::stubs::mm256_sll_epi64"), (X + "_mm256_srl_epi64", "crate::stubs::mm256_srl_epi64"),
         (X + "_mm256_add_epi64", "crate::stubs::mm256_add_epi64"), (X + "_mm256_sub_epi64", "crate::stubs::mm256_sub_epi64"),
         (X + "_mm256_cmpgt_epi64", "crate::stubs::mm256_cmpgt_epi64"), (X + "_mm256_i64gather_epi64", "crate::stubs::mm256_i64gather_epi64"), (X + "_mm256_mul_epi32", "crate::stubs::mm256_mul_epi32")]
LIN = ["add", "add_assign", "sub", "sub_assign", "sub_negate_assign", "negate", "negate_assign"]
NORM = ["first_step_carry_only", "first_step_assign", "first_step_ow", "first_step_acc", "middle_step_carry_only", "middle_step_assign", "middle_step_ow", "middle_step_acc",
        "middle_step_sub", "final_step_assign", "final_step_ow", "final_step_acc", "final_step_sub", "extract_digit_addmul", "normalize_digit"]


def instances(tier, seed):
    out = []
    for ln in range(1, 10):
        for op, oname in enumerate(LIN):
            out.append(Instance(crate="hk_avx", family=f"avx.{oname}", name=f"c10_{oname}_len{ln}", call=f"crate::c10::linear::<{ln}, {op}>()", unwind=ln + 3,
                                params={"kernel": oname, "len": ln}, symbolic=["all lanes |x|<2^62", "prior output"], stubs=STUBS,
                                functions=[f"{A}/{'add' if 'add' in oname else 'sub' if 'sub' in oname else 'neg'}.rs::znx_{oname}_avx"], timeout=600, core=(ln in (5, 3) and op in (0, 4, 5))))
        for op, oname in enumerate(["mul_power_of_two", "mul_power_of_two_assign", "mul_add_power_of_two"]):
            for k in (-40, -17, -1, 0, 1, 17, 40):
                out.append(Instance(crate="hk_avx", family=f"avx.{oname}", name=f"c10_{oname}_len{ln}_k{sgn(k)}", call=f"crate::c10::mulpow2::<{ln}, {op}>({k})", unwind=ln + 3,
                                    params={"kernel": oname, "len": ln, "k": k}, symbolic=["all lanes |x|<2^61"], stubs=STUBS,
                                    functions=[f"{A}/mul.rs::znx_{oname}_avx"], timeout=600, core=(ln == 5 and k in (-17, 17) and op != 1)))
        for b in (B_QUICK if tier == "quick" else B_THOROUGH):
            for k, kname in enumerate(NORM):
                if k == 13 and b > 60:
                    continue
                out.append(Instance(crate="hk_avx", family=f"avx.norm.{kname}", name=f"c10_norm_{kname}_len{ln}_b{b}", call=f"crate::c10::norm::<{ln}, {b}, {k}>()", unwind=ln + 3,
                                    params={"kernel": kname, "len": ln, "base2k": b}, symbolic=["lsh in [0,base2k)", "all lanes |x|<2^61 (a, x_prev, carry)"], stubs=STUBS,
                                    functions=[f"{A}/normalization.rs::znx_normalize_*_avx / znx_extract_digit_addmul_avx / znx_normalize_digit_avx"], timeout=900,
                                    core=(ln == 5 and b == 17 and k in (0, 5, 6, 7, 8, 12, 13, 14))))
            out.append(Instance(crate="hk_avx", family="avx.norm.full_range_carry", name=f"c10_norm_full_len{ln}_b{b}", call=f"crate::c10::norm_full::<{ln}, {b}>()", unwind=ln + 3,
                                params={"kernel": "first_step_carry_only(full i64 range)", "len": ln, "base2k": b}, symbolic=["lsh in [0,base2k)", "all lanes over the full i64 range"], stubs=STUBS,
                                functions=[f"{A}/normalization.rs::get_carry_avx/get_digit_avx via znx_normalize_first_step_carry_only_avx"], timeout=900,
                                core=(ln == 5 and b in (12, 50))))
    for n in (1, 2, 4, 8, 16):
        out.append(Instance(crate="hk_avx", family="avx.automorphism", name=f"c10_automorphism_n{n}", call=f"crate::c10::automorphism::<{n}>()", unwind=n + 3,
                            params={"kernel": "automorphism", "n": n}, symbolic=["every odd g |g|<2^20", "coefficients |x|<2^62"], stubs=STUBS,
                            functions=[f"{A}/automorphism.rs::znx_automorphism_avx"], timeout=1200, core=(n in (4, 8))))
    for nin, nout in ((8, 4), (8, 2), (16, 4), (4, 8), (2, 8), (4, 16), (1, 8), (8, 1), (4, 4), (8, 8)):
        out.append(Instance(crate="hk_avx", family="avx.switch_ring", name=f"c10_switch_ring_{nin}to{nout}", call=f"crate::c10::switch_ring::<{nin}, {nout}>()", unwind=max(nin, nout) + 3,
                            params={"kernel": "switch_ring", "n_in": nin, "n_out": nout}, symbolic=["coefficients (full i64)", "prior output"], stubs=STUBS,
                            functions=[f"{A}/switch_ring.rs::znx_switch_ring_avx"], timeout=600, core=((nin, nout) in ((8, 4), (4, 8)))))
    C = "poulpy-cpu-avx/src/fft64/convolution.rs"
    for a_s in (1, 2, 3):
        for bs in (1, 2, 3):
            for two in (False, True):
                for k in range(0, a_s + bs + 1):
                    out.append(Instance(crate="hk_avx", family="avx.conv_by_const_2coeffs" if two else "avx.conv_by_const_1coeff", name=f"c10_conv{'2' if two else '1'}_as{a_s}_bs{bs}_k{k}",
                                        call=f"crate::c10::conv_by_const::<{a_s}, {bs}, {8*a_s+16}, {bool_rs(two)}>({k})", unwind=8 * a_s + 40,
                                        params={"kernel": "conv_by_const", "a_size": a_s, "b_size": bs, "k": k, "two_coeffs": two}, symbolic=["a lanes (i32 range)", "b scalars |b|<2^15", "prior dst"], stubs=STUBS,
                                        functions=[f"{C}::i64_convolution_by_{'real_const_2coeffs' if two else 'const_1coeff'}_avx"], timeout=500,  # (3,3,k>=2) needs ~20 min: sampled only, UNDECIDED at the cap
                                        core=((a_s, bs) == (1, 3) and k in (0, 2) and not two) or ((a_s, bs, k) == (3, 3, 0) and not two) or ((a_s, bs) == (2, 2) and k == 1)))
    for nn in (8, 16):
        for rows in (1, 2, 3):
            for blk in range(nn // 8):
                for save in (False, True):
                    ls, ld = (rows * 8 + nn, rows * nn + nn) if save else (rows * nn + nn, rows * 8 + nn)
                    out.append(Instance(crate="hk_avx", family="avx.blk_save" if save else "avx.blk_extract", name=f"c10_blk_{'save' if save else 'extract'}_n{nn}_r{rows}_b{blk}",
                                        call=f"crate::c10::blk_movers::<{nn}, {rows}, {ls}, {ld}, {bool_rs(save)}>({blk}, 0)", unwind=rows * nn + nn + 10,
                                        params={"kernel": "blk_mover", "n": nn, "rows": rows, "blk": blk, "save": save}, symbolic=["all words", "prior dst"], stubs=STUBS,
                                        functions=[f"{C}::i64_{'save' if save else 'extract'}_1blk_contiguous_avx"], timeout=600, core=(nn == 16 and rows == 2 and blk == 1)))
    return out


META = {
    "bounds": "slice lengths 1..9 (0..2 SIMD blocks x tails 0..3), base2k from the radix grid, lsh symbolic, N in {1,..,16} for index kernels",
    "outside": "floating-point AVX kernels (fft, reim4, conversions), NTT120 AVX primitives, assembly kernels, scheme-level two-backend runs; the compositional step (shared generic shape code) is by reading",
    "assumptions": ["reference add/sub use checked +/-: |x|<2^62 so the mathematical result fits", "normalisation kernels on the headroom domain |x|<2^61 (except the full-range carry family)"],
    "stubs": ["scalar lane models for _mm256_sllv/srlv/sll/srl_epi64, _mm256_add/sub_epi64, _mm256_cmpgt_epi64 (harness/hk_avx/src/stubs.rs), validated against the hardware by the crate's unit test"],
}
